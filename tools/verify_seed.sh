#!/bin/bash
# usage: verify_seed.sh <PROP> <variant a|b> <srcdir> [destsubdir=. ] [pkg=.]
# Confirms a seeded change in a scratch worktree: demo passes on pristine, fails with
# the patch, full suite failing-set equals the pristine baseline (modulo known flakes).
# On success stores it as /verif/seeded/<PROP>-<variant>/ with meta.json.
set -u
P=$1; V=$2; SRC=$3; DEST=${4:-.}; PKG=${5:-.}; EXTRA=${6:-}
ID=$P-$V
WT=/tmp/vs-$ID
export GOFLAGS=-mod=mod GOPROXY=off
mkdir -p /tmp/seedout
LOG=/tmp/seedout/verify-$ID.log
exec >"$LOG" 2>&1
git -C /repo worktree remove --force $WT 2>/dev/null
git -C /repo worktree add --detach $WT HEAD || exit 2
cleanup(){ git -C /repo worktree remove --force $WT; }
trap cleanup EXIT
mkdir -p $WT/$DEST
cp $SRC/seeded_*_test.go $WT/$DEST/ || exit 2
RUN=${RUN_OVERRIDE:-$(ls $SRC/seeded_*_test.go | head -1 | xargs grep -ho "^func Test[A-Za-z0-9_]*" | sed 's/func //' | paste -sd'|')}
cd $WT
echo "### demo on pristine (expect PASS): -run '$RUN' $PKG"
go test $EXTRA -vet=off -count=1 -timeout 20m -run "^($RUN)\$" $PKG; PR=$?
echo "pristine rc=$PR"
git apply $SRC/patch.diff || { echo "PATCH FAILED"; exit 2; }
echo "### build with patch"
go build ./... ; BR=$?
echo "### demo with patch (expect FAIL)"
go test $EXTRA -vet=off -count=1 -timeout 20m -run "^($RUN)\$" $PKG; MR=$?
echo "patched rc=$MR"
echo "### full suite with patch (demo removed)"
rm -f $WT/$DEST/seeded_*_test.go
go test -vet=off -count=1 ./... 2>&1 | grep -E "^(--- FAIL|FAIL|ok )" | grep -v "^ok " | sort -u > /tmp/seedout/verify-$ID.fails
cat /tmp/seedout/verify-$ID.fails | grep -v "/s3\|TestReplicaClient\|^FAIL$" | head -20
NEWFAIL=$(grep -E "^--- FAIL" /tmp/seedout/verify-$ID.fails | grep -v "TestLeaser_\|TestReplicaClient\|TestReplica_UploadLTXFile_OpenErrorReturnsLTXError\|TestDB_DelayedCheckpointAfterWrite\|TestServer_Handle\|TestRegisterCommand_Run\|TestDB_Close_SyncRetry\|TestStore_Integration\|TestResumableReader_ContextCancel\|TestNewReplicaClientFromConfig\|TestParseReplicaURL" | wc -l)
echo "RESULT id=$ID pristine_demo_rc=$PR build_rc=$BR patched_demo_rc=$MR unexpected_suite_failures=$NEWFAIL"
if [ $PR -eq 0 ] && [ $BR -eq 0 ] && [ $MR -ne 0 ]; then
  D=/verif/seeded/$ID; mkdir -p $D
  cp $SRC/patch.diff $D/; cp $SRC/seeded_*_test.go $D/; [ -f $SRC/README.md ] && cp $SRC/README.md $D/
  for f in $D/seeded_*_test.go; do mv "$f" "$f.txt"; done
  cat > $D/meta.json <<EOM
{"id": "$ID", "property": "$P", "demo_dir": "$DEST", "demo_pkg": "$PKG", "demo_run": "$RUN",
 "confirmed": {"pristine_demo_passes": true, "patched_build_ok": true, "patched_demo_fails": true, "unexpected_suite_failures": $NEWFAIL},
 "ran": "git worktree add /tmp/vs-$ID; go test -run demo (pass); git apply patch.diff; go build ./...; go test -run demo (fail); go test ./... compared with the sandbox baseline (s3 aws-config failures and load-sensitive timing tests excluded)"}
EOM
  echo STORED
fi
