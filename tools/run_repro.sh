#!/bin/bash
# usage: run_repro.sh <TestName regex> [-race]   — runs findings/repro/f1..f4 tests (package d2) against /repo
set -e
D=$(mktemp -d /tmp/repro.XXXX)
trap "rm -rf $D" EXIT
cd $D
cp /verif/findings/repro/go.mod.txt go.mod; cp /repo/go.sum .
for f in f1_stop_start f2_runtime_reset f3_restart_while_down f4_follow_resume f8_half_init; do cp /verif/findings/repro/${f}_test.go.txt ${f}_test.go; done
export GOFLAGS=-mod=mod GOPROXY=off
go test -count=1 $2 -run "$1" -v . 2>&1 | grep -E "^(=== RUN|--- |FAIL|ok|PASS|panic)|_test.go:[0-9]+:" | head -40
