#!/usr/bin/env python3
"""Regenerate /verif/MANIFEST.json from the table below (kept in one place so the
manifest is always valid and in step with the checker's registry)."""
import json, subprocess, sys, os

HOME = os.path.dirname(os.path.dirname(os.path.abspath(__file__)))

# property -> (technique, level text, level note, design ref)
CLAIMED = {}
NOT_APPLICABLE = {}

def claim(pid, technique, text, note, ref):
    CLAIMED[pid] = dict(technique=technique, text=text, note=note, ref=ref)

def na(pid, reason):
    NOT_APPLICABLE[pid] = reason

exec(open(os.path.join(HOME, "tools", "manifest_table.py")).read())

def main():
    checks = []
    for pid in sorted(CLAIMED):
        c = CLAIMED[pid]
        checks.append({
            "property_id": pid,
            "quick_cmd": f"bin/lsverify check -property {pid} -tier quick",
            "thorough_cmd": f"bin/lsverify check -property {pid} -tier thorough",
            "evidence_file": f"/verif/evidence/{pid}.json",
            "replay_cmd_template": "bin/lsverify explain {path}",
            "engine": "lsverify",
            "level_claimed": {"category": "other", "text": c["text"], "design_ref": c["ref"]},
            "level_note": c["note"],
            "technique": c["technique"],
        })
    m = {
        "version": 1,
        "setup_cmd": "./build.sh && bin/lsverify warm",
        "hooks": {
            "guard": "verif",
            "enable": "no hooks are needed: the checker reads /repo's source; the build tag 'verif' is reserved and unused",
            "baseline_off_cmd": "cd /repo && GOFLAGS=-mod=mod GOPROXY=off go test -vet=off -count=1 -timeout 25m ./...",
            "source_commits": [],
            "add_only": True,
        },
        "engines": [{
            "name": "lsverify",
            "path": "checker/",
            "serves_properties": sorted(CLAIMED),
            "kind_free_text": "repository-specific static analyser over go/types + go/ssa (x/tools v0.50.0): edge-cut reachability on SSA CFGs, value provenance, error-flow/fail-stop walk, file-publication typestate, lockset dataflow, SQL statement inventory",
        }],
        "checks": checks,
        "not_applicable": [{"property_id": k, "reason": v} for k, v in sorted(NOT_APPLICABLE.items())],
        "notes": "All checks are static: nothing under /repo is executed. quick = linux/amd64 with tag vfs; thorough = the same obligations under 5 build configurations plus the checker self-test. Known genuine defects are listed in known_findings.json.",
    }
    with open(os.path.join(HOME, "MANIFEST.json"), "w") as f:
        json.dump(m, f, indent=1)
        f.write("\n")
    try:
        import jsonschema
        jsonschema.validate(m, json.load(open("/root/.vp/MANIFEST.schema.json")))
        print("MANIFEST.json valid;", len(checks), "checks,", len(NOT_APPLICABLE), "not applicable")
    except ImportError:
        print("jsonschema not available; wrote MANIFEST.json")

if __name__ == "__main__":
    main()
