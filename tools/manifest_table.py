# Table consumed by gen_manifest.py.  claim(id, technique, level text, level note, design ref) / na(id, reason)
_TB = "go/types+go/ssa of x/tools v0.50.0 model the source faithfully; rules decide the named structural clauses (necessary conditions), not run-time values"

claim("C09", "edge-cut reachability + value provenance on SSA (custom analyser)",
      "Decides, for every path of readHeader/readFrame/pageMap/NewWALReaderWithOffset/(*DB).sync, that success, page-map updates and the frame counter are reachable only through the branch edges on which each WAL validity fact holds (full reads, magic, header checksum, version, salts, both cumulative checksum words, commit field, trim above commit). A structural necessary condition of the property, decided for all inputs; byte-level equivalence with SQLite is not decided.",
      _TB, "DESIGN.md 3/C09")

_pending = "check not built yet in this revision (planned, see DESIGN.md section 3); not claimed until its rules run clean on the unchanged tree"
for _p in ["C01","C02","C03","C04","C05","C06","C07","C08","C10","C11","C12","C13","C14","C15","C16","C17","C18","C19","C20"]:
    na(_p, _pending)
