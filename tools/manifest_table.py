# Table consumed by gen_manifest.py.  claim(id, technique, level text, level note, design ref) / na(id, reason)
_TB = "go/types+go/ssa of x/tools v0.50.0 model the source faithfully; rules decide the named structural clauses (necessary conditions), not run-time values"

claim("C09", "edge-cut reachability + value provenance on SSA (custom analyser)",
      "Decides, for every path of readHeader/readFrame/pageMap/NewWALReaderWithOffset/(*DB).sync, that success, page-map updates and the frame counter are reachable only through the branch edges on which each WAL validity fact holds (full reads, magic, header checksum, version, salts, both cumulative checksum words, commit field, trim above commit). A structural necessary condition of the property, decided for all inputs; byte-level equivalence with SQLite is not decided.",
      _TB, "DESIGN.md 3/C09")

claim("C07", "who-may-call + edge-cut reachability + phi provenance on SSA (custom analyser)",
      "Decides for every path of the five retention functions that a file is put on the deletion list only under its retention predicate, that the newest listed file is never on the list handed to DeleteLTXFiles, that L0 deletion is a prefix, that remote deletion is gated by RetentionEnabled and that no other production code deletes replica files. Necessary conditions of the property for all file sets and ages; global safety across interleaved compaction/ageing is not decided.",
      _TB, "DESIGN.md 3/C07")
claim("C08", "edge-cut reachability on SSA CFGs of the planner (custom analyser)",
      "Plan validity (starts at the chosen snapshot, contiguous, ends at the target, no file created at/after T) is decided by induction from guard facts on the only statements that extend the plan, for all file sets; plus the latest-state gap check and a no-early-exit clause. Completeness of the greedy search is not decided.",
      _TB, "DESIGN.md 3/C08")
claim("C15", "edge-cut reachability (strict-before facts) + value provenance of the timestamp round trip",
      "Decides that every plan selection site requires CreatedAt strictly before T, that listings ask for accurate timestamps when restoring by time, that an empty plan fails, and that the file replica stores/reports the LTX header timestamp as mtime/CreatedAt. Monotonicity in T and 'exactly the last transaction before T' are not decided.",
      _TB, "DESIGN.md 3/C15")
claim("C20", "protocol-shape rules: edge-cut reachability + value provenance on s3.Leaser",
      "Decides the compare-and-swap protocol shape for all paths: conditional header on every PutObject/DeleteObject, acquire gated by absent/expired, token from the same read, generation+1, 412 never success, renew keeps generation. Mutual exclusion then follows from the provider's CAS; interleaving-level linearizability and clock skew are not decided. One recorded finding (F6).",
      _TB, "DESIGN.md 3/C20")

claim("C02", "edge-cut reachability + value provenance + lockset dataflow on SSA (custom analyser)",
      "Decides commit gating of the WAL copy, TXID allocation (pos+1, same value in header and file name), header provenance, publication-before-acknowledgement of the position, the bounded snapshot read and the executor/checkpoint-lock hand-off, on every path. Necessary conditions of 'every TXID is one committed state, monotone, gapless'; the content of each TXID (SQLite semantics, C04's continuity decision) is not decided.",
      _TB, "DESIGN.md 3/C02")
claim("C17", "edge-cut reachability on dense page loops, including obligations on the pinned ltx dependency",
      "Decides, symbolically in the page size, that every dense page loop skips ltx.LockPgno, that the ltx encoder cannot emit the lock page and that the decoder writes a zero page there. Byte equality of other pages is not decided.",
      _TB, "DESIGN.md 3/C17")

claim("C03", "who-may-create + TMP-provenance + edge-cut reachability (custom analyser)",
      "Decides the structural clauses that make a kill at any instant harmless: every create-for-write opener in production code targets a temporary name and every rename publishes dst+.tmp, Open removes stale temporaries before monitoring starts, listings ignore foreign names, the local position comes from a checksum-verified file, the replica position is reset on every error exit, staged files are removed on failure. Syscall-level kill enumeration is not performed.",
      _TB, "DESIGN.md 3/C03")
claim("C11", "file-publication typestate: forward must-dataflow + edge-cut reachability at every os.Rename",
      "Decides, for every path through every publication site of the local file system, fsync-after-last-write before rename, directory fsync before success, and fail-stop of sync/close/rename/dirsync errors. This is the property as stated for local files (call order on all paths); physical durability of fsync and remote back ends are not decided. One defect found and fixed (F5).",
      _TB, "DESIGN.md 3/C11")

claim("C01", "path-sensitive fail-stop walk over the acknowledgement cone + value provenance (custom analyser)",
      "Decides the acknowledgement skeleton for every path: an acknowledgement can only be produced after every stage call on the path returned nil (no stage error dropped or turned into success; deliberate tolerances are a frozen, reasoned table), the LTX header/page-copy provenance and the checkpoint protocol ordering. Page-level equality and the continuity decision (C04) are not decided.",
      _TB, "DESIGN.md 3/C01")
claim("C05", "path-sensitive fail-stop walk (upload/compaction cones) + edge-cut reachability",
      "Decides, for every fault pattern that surfaces as a returned error, that the replica position advances only after a successful upload of exactly pos+1, that no error on the upload/compaction path is dropped (pipe hand-offs and the sticky reader error included), that staged files are removed and that the monitors cannot terminate on an error. Convergence time and ambiguous remote outcomes are not decided.",
      _TB, "DESIGN.md 3/C05")

claim("C10", "path-sensitive fail-stop walk over the restore cone + edge-cut reachability + provenance (incl. pinned ltx)",
      "Decides restore's loud-failure skeleton on every path: output created only when absent, staged and renamed, integrity failure removes the output path itself, no error in the restore cone is dropped (pipe hand-off included), verification sinks in ltx v0.5.2 (decode succeeds only after the trailer checksum compared equal; compactor verifies every input), resumable-reader discipline, planner gap check. That a corruption always changes a checksum is not decided.",
      _TB, "DESIGN.md 3/C10")
claim("C19", "edge-cut reachability + provenance + fail-stop walk on the legacy restore path",
      "Decides index/offset contiguity of every applied WAL segment anchored at the chosen snapshot, eligibility (not newer than T) of snapshot and segments, the operands of format arbitration, and error discipline of RestoreV3. Reconstruction correctness inside SQLite is not decided.",
      _TB, "DESIGN.md 3/C19")

claim("C16", "edge-cut reachability + phi provenance + fail-stop walk + publication typestate on the follow-mode code",
      "Decides the ordering skeleton of follow mode on every path: sidecar only after a successful advancing apply, in-memory TXID only after a durable sidecar, only contiguous/extending files applied and the TXID advanced only on the apply's nil edge, apply syncs/verifies/syncs under the exclusive lock, the loop ends only on cancellation, and writer/reader agreement of the resume bound (defect F4 found and fixed). Convergence/byte equality are not decided.",
      _TB, "DESIGN.md 3/C16")

claim("C12", "lockset dataflow (must/may held sets, wrapper summaries, interprocedural entry sets) over the SSA program",
      "Decides, for every path and independent of schedule: lock pairing (no leaked lock, including the checkpoint-lock hand-off chain), required locksets at checkpoint/sync call sites, acyclicity of the lock-order graph, guarded-by discipline for a frozen table of shared fields, DB.Close teardown completeness and RegisterDB's single critical section. A violated guarded-by obligation is a possible data race; one confirmed family is recorded (F7). Races outside the table, channel/WaitGroup deadlocks and the post-state (C01/C02) are not decided.",
      _TB, "DESIGN.md 3/C12")
claim("C14", "closed-world SQL statement inventory + provenance + rollback-on-all-paths",
      "Decides over the whole production program that the only statements ever issued on the source handle are the enumerated constant statements on litestream's own two tables, the three PRAGMAs and SELECTs, that no transaction is ever committed and every transaction on the source is rolled back on every path, that the database file handle is read-only and no path derived from the source path is created/removed/renamed. SQLite honouring the statements is assumed.",
      _TB, "DESIGN.md 3/C14")

claim("C04", "edge-cut reachability (default-deny) + provenance + call-graph reachability on the continuity decision",
      "Decides necessary conditions of 're-snapshot unless continuity is proven' on every path: snapshot is the default and each 'continue incrementally' is reachable only through its evidence edges; helper verdicts are pinned; session state is cleared by Close; wiping local state on a live database re-baselines; the salt-change branch inspects the WAL at the old cursor. Four genuine defects were found by these rules and fixed (F1, F2, F3 and the init wedge F8 under C05). Sufficiency of the evidence for all SQLite histories is not decidable from shape and is not claimed.",
      _TB, "DESIGN.md 3/C04")

claim("C13", "edge-cut reachability + value provenance on the checkpoint policy",
      "Decides the loop-breaking guards of the checkpoint policy on every path (idle sync creates nothing; time-based checkpoint needs data synced since the last checkpoint and every completed checkpoint clears that flag; thresholds consume the logical synced offset; the policy runs whenever the sync loop stops). The quantitative bound on live WAL frames depends on SQLite's run-time checkpoint results and is not decided.",
      _TB, "DESIGN.md 3/C13")
claim("C06", "edge-cut/loop reachability + value provenance + fail-stop walk on the compaction path",
      "Decides on every path: compaction starts at MaxTXID(dst)+1 on level dst-1, no listed input can be skipped silently, the advertised range is folded over all inputs, the pipe/cache hand-off follows the write result, the snapshot branch needs a newer position, snapshots advertise the committed size. Page equivalence of compacted files lives in the pinned ltx dependency and is not decided.",
      _TB, "DESIGN.md 3/C06")

claim("C18", "provenance + edge-cut reachability + lockset (guarded-by) on the VFS code (build tag vfs)",
      "Decides structural necessary conditions of 'the VFS serves what a restore would': the index is always built from the restore planner's result in plan order on the file's own client with the requested timestamp forwarded unchanged, a page fetch uses the coordinates of the one element looked up for the right page number, the header rewrite is confined to bytes 18/19/24..27 of page 1, index state is accessed under its mutex, a pending index replacement is never dropped while a reader holds a lock, polling is contiguous and catch-up inclusive. The byte-level differential against a full restore is not decided.",
      _TB, "DESIGN.md 3/C18")

_pending = "check not built yet in this revision (planned, see DESIGN.md section 3); not claimed until its rules run clean on the unchanged tree"

