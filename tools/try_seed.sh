#!/bin/sh
# usage: try_seed.sh <patch.diff> <property> [more properties...]
# Applies a seeded change to /repo, runs the given checks, and reverts the tree.
patch=$1; shift
cd /repo || exit 2
if [ -n "$(git status --porcelain)" ]; then echo "repo not clean"; exit 2; fi
git apply "$patch" || exit 2
for p in "$@"; do
  /verif/bin/lsverify check -property "$p" 2>&1 | grep -E "^(violation|undecided|unresolved|below-floor|VIOLATION|KNOWN|C[0-9]+ tier)" | cut -c1-400
done
git checkout -- . && git status --porcelain
