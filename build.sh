#!/bin/sh
# Build the checker offline with the pre-installed go1.26.8 toolchain.
set -e
cd "$(dirname "$0")/checker"
export PATH=/opt/veriftools/go1.26.8/bin:$PATH
export GOTOOLCHAIN=local GOFLAGS=-mod=mod GOPROXY=off GOSUMDB=off GOWORK=off
mkdir -p ../bin
go build -o ../bin/lsverify .
