package main

// C08 — restore plans are valid chains (validity half) and C15 — timestamp
// restore never returns data from after the requested time.
//
// Plan validity follows by induction from guard facts on the only statements
// that extend the plan (snapshot choice, per-level candidate choice, append),
// plus the final success conditions and the latest-state gap check.

import (
	"fmt"
	"go/token"
	"go/types"
	"strings"

	"golang.org/x/tools/go/ssa"
)

func init() {
	register(&PropSpec{
		ID:  "C08",
		Run: func(c *Ctx) { runPlanRules(c, true, true) },
		Explanation: "Edge-cut reachability (E3) on CalcRestorePlan and (*restoreLevelCursor).refresh: the snapshot choice is reachable only under MaxTXID <= target (when a target TXID is given) and CreatedAt strictly before T (when given); " +
			"a level candidate is chosen only under MinTXID <= currentMax+1, MaxTXID > currentMax, MaxTXID <= target, strictly-before-T; the plan is extended only by a candidate that extends currentMax; " +
			"success requires a non-empty plan that reaches the target; a latest-state restore succeeds only after every level cursor passed the gap check; and every filter that rejects a file keeps scanning (no early exit).  " +
			"By induction over the statements that extend the plan these facts give: starts at the chosen snapshot, contiguous, ends at the target, uses no file created at or after T.",
		NotDecided:  "completeness of the greedy search over all file sets (a valid chain is found whenever one exists) beyond the no-early-exit clause; optimality of the choice",
		Assumptions: []string{"ltx.FileIterator yields files of a level in filename (MinTXID) order, as documented for ReplicaClient.LTXFiles"},
	})
	register(&PropSpec{
		ID:  "C15",
		Run: runC15,
		Explanation: "Strict-before-T facts at every plan selection site (shared with C08: true edge of CreatedAt.Before(T) or of T.After(CreatedAt), so `<=` is rejected), " +
			"value provenance of the file replica's timestamp round trip (WriteLTXFile sets mtime = time.UnixMilli(header.Timestamp) read by ltx.PeekHeader on every success path after the rename, LTXFiles reports CreatedAt = ModTime), " +
			"useMetadata = !T.IsZero() at every plan listing, T-before-first-backup fails (non-empty plan required), and a sibling cross-check that every WriteLTXFile implementation derives CreatedAt from the LTX header.",
		NotDecided:  "monotonicity in T and 'exactly the last transaction before T' (planner semantics over run-time file sets); timestamps of compacted files (ltx.Compactor)",
		Assumptions: []string{"file modification times survive on the replica file system with at least millisecond resolution"},
	})
}

func isLTXFiles(s string) bool {
	return s == "iface:ls.ReplicaClient.LTXFiles" || (len(s) > 10 && s[len(s)-9:] == ".LTXFiles")
}

func isFileInfoPtr(t types.Type) bool {
	p, ok := t.Underlying().(*types.Pointer)
	if !ok {
		return false
	}
	n, ok := types.Unalias(p.Elem()).(*types.Named)
	return ok && n.Obj().Name() == "FileInfo" && n.Obj().Pkg() != nil && n.Obj().Pkg().Path() == "github.com/superfly/ltx"
}

var isItem = nameIs("iface:ltx.FileIterator.Item")

// planFacts builds the target facts for a file value.
func planTargetFacts(file VM) (txidOK []FP, timeOK []FP) {
	txID := vParam("txID")
	ts := vParam("timestamp")
	txidOK = []FP{
		cmpFact(txID, token.EQL, vConstInt(0), "txID == 0"),
		cmpFact(vFieldLoad("FileInfo.MaxTXID", file), token.LEQ, txID, "file.MaxTXID <= txID"),
	}
	timeOK = append([]FP{isZeroTime(ts, "timestamp.IsZero()")}, strictlyBefore(vFieldLoad("FileInfo.CreatedAt", file), ts, "file.CreatedAt strictly before timestamp")...)
	return
}

func descs(fps []FP) string {
	s := ""
	for _, f := range fps {
		if f.Desc == "" {
			continue
		}
		if s != "" {
			s += " OR "
		}
		s += f.Desc
	}
	return s
}

func (c *Ctx) requireAlts(rule string, fn *ssa.Function, s Site, alts []FP) bool {
	construct := fmt.Sprintf("%s: %s requires [%s]", fnName(fn), s.Desc, descs(alts))
	ok, n := guardedBy(s.In, alts...)
	if n == 0 {
		c.fail(rule, construct, c.pos(s.In), "no branch establishing the required fact exists in "+fnName(fn))
		return false
	}
	if !ok {
		c.fail(rule, construct, c.pos(s.In),
			fmt.Sprintf("site is reachable from entry without passing a branch edge on which the fact holds (%d candidate edge(s) removed)", n),
			witnessPath(c.P, fn, s.In.Block(), cutEdges(fn, alts...))...)
		return false
	}
	c.ok(rule, construct, c.pos(s.In), fmt.Sprintf("unreachable after removing %d fact edge(s)", n))
	return true
}

func runPlanRules(c *Ctx, validity, timeRules bool) {
	plan := c.fn("R1-snapshot-choice", "ls.CalcRestorePlan")
	refresh := c.fn("R2-candidate-choice", "(*ls.restoreLevelCursor).refresh")
	if plan == nil || refresh == nil {
		return
	}
	anyFile := func(v ssa.Value) bool { return isFileInfoPtr(v.Type()) }
	if validity {
		c08Comparator(c)
	}

	// R1: snapshot choice.  The chosen snapshot is a phi over FileInfo values
	// fed from Item() of the level-9 listing.
	{
		const rule = "R1-snapshot-choice"
		n := 0
		var planBlocks []*ssa.BasicBlock
		for _, g := range deepFuncs(plan) {
			planBlocks = append(planBlocks, g.Blocks...)
		}
		for _, b := range planBlocks {
			for _, in := range b.Instrs {
				phi, ok := in.(*ssa.Phi)
				if !ok {
					break
				}
				if !isFileInfoPtr(phi.Type()) {
					continue
				}
				for i, e := range phi.Edges {
					call, ok := e.(*ssa.Call)
					if !ok || !isItem(calleeName(call)) {
						continue
					}
					n++
					pred := b.Preds[i]
					file := vIs(call)
					txOK, tOK := planTargetFacts(file)
					site := Site{lastInstr(pred), "snapshot = info (edge from block " + fmt.Sprint(pred.Index) + ")"}
					if validity {
						c.requireAlts(rule, plan, site, txOK)
					}
					c.requireAlts(rule, plan, site, tOK)
					// the iterator comes from the snapshot level listing
					it := call.Call.Value
					okLvl := false
					for _, o := range origins(it) {
						if ex, ok := o.(*ssa.Extract); ok {
							if lc, ok := ex.Tuple.(*ssa.Call); ok && isLTXFiles(calleeName(lc)) {
								if lv, ok := constInt(namedArg(lc, "level")); ok && lv == 9 {
									okLvl = true
								}
							}
						}
					}
					c.check(okLvl, rule, fnName(plan)+": snapshot candidates come from the SnapshotLevel (9) listing", c.pos(call), "level constant 9", "snapshot candidates are not listed from level 9")
				}
			}
		}
		c.floor(rule, n, 1, "snapshot selection edges in CalcRestorePlan")
	}

	// R2: candidate choice in refresh.
	{
		const rule = "R2-candidate-choice"
		cur := vParam("currentMax")
		n := 0
		for _, st := range storesToField(refresh, "restoreLevelCursor.candidate") {
			if isNilConst(st.Val) {
				continue
			}
			n++
			file := vIs(st.Val)
			site := Site{st, "c.candidate = info"}
			txOK, tOK := planTargetFacts(file)
			if validity {
				c.requireGuard(rule, refresh, site, cmpFact(vFieldLoad("FileInfo.MinTXID", file), token.LEQ, vPlusOne(cur), "info.MinTXID <= currentMax+1"))
				c.requireGuard(rule, refresh, site, cmpFact(vFieldLoad("FileInfo.MaxTXID", file), token.GTR, cur, "info.MaxTXID > currentMax"))
				c.requireAlts(rule, refresh, site, txOK)
			}
			c.requireAlts(rule, refresh, site, tOK)
		}
		c.floor(rule, n, 1, "assignments c.candidate = info")
		// the candidate offered is cleared once it no longer extends currentMax
		if validity {
			c09 := 0
			for _, st := range storesToField(refresh, "restoreLevelCursor.candidate") {
				if isNilConst(st.Val) {
					c09++
				}
			}
			c.floor(rule, c09, 1, "stale candidate reset in refresh")
		}
	}

	if validity {
		// R6: every filter that rejects a file keeps scanning.
		const rule = "R6-scan-continues"
		var header *ssa.BasicBlock
		for _, call := range callsTo(refresh, nameIs("(*ls.restoreLevelCursor).ensureCurrent")) {
			header = call.Block()
		}
		if header == nil {
			c.fail(rule, fnName(refresh)+": scan loop found", c.P.Pos(refresh.Pos()), "no ensureCurrent call (scan loop header) in refresh")
		} else {
			cur := vParam("currentMax")
			var cutIn []Edge
			for _, b := range refresh.Blocks {
				for i, s := range b.Succs {
					if s == header {
						cutIn = append(cutIn, Edge{b, i})
					}
				}
			}
			rejects := []FP{
				cmpFact(vFieldLoad("FileInfo.MaxTXID", anyFile), token.LEQ, cur, "info.MaxTXID <= currentMax (already covered)"),
				cmpFact(vFieldLoad("FileInfo.MaxTXID", anyFile), token.GTR, vParam("txID"), "info.MaxTXID > txID (overshoots target)"),
				truthFact(vCall("(time.Time).Before", vFieldLoad("FileInfo.CreatedAt", anyFile), vParam("timestamp")), false, "info.CreatedAt not before timestamp"),
			}
			// every filter still exists (in refresh or in a helper extracted from it)
			for _, rj := range rejects {
				n := 0
				for _, g := range deepFuncs(refresh) {
					n += factOccurrences(g, rj)
				}
				c.floor(rule, n, 1, "filter edge: "+rj.Desc)
			}
			// an edge of refresh on which one of the reject reasons holds leads back to the scan
			es := factEdgesAlts(refresh, 0, rejects...)
			c.floor(rule, len(es), 1, "reject edges in refresh")
			for _, e := range es {
				why := "a file was rejected"
				for _, rj := range rejects {
					if rj.holds(edgeFact(lastInstr(e.From).(*ssa.If), e.Succ)) {
						why = rj.Desc
					}
				}
				tgt := e.From.Succs[e.Succ]
				good := tgt == header
				if !good {
					r := reachable(refresh, tgt, cutIn)
					good = true
					for _, ret := range returns(refresh) {
						if r[ret.Block()] {
							good = false
						}
					}
				}
				c.check(good, rule, fmt.Sprintf("%s: after rejecting a file because %s the scan continues with the next file", fnName(refresh), why), c.pos(lastInstr(e.From)),
					"edge leads back to the scan loop", "the scan returns after an ineligible file although later files of the level may be eligible (a valid chain can be missed)")
			}
			// stopping is allowed only at a file that starts beyond currentMax+1 (or exhaustion)
		}
	}

	if validity {
		// R3: the plan is extended only by a candidate that extends currentMax.
		const rule = "R3-append-extends"
		n := 0
		curMax := vOr(vResult(nameIs("(ltx.FileInfoSlice).MaxTXID"), 0), vFieldLoad("FileInfo.MaxTXID", nil))
		for _, call := range calls(plan) {
			if calleeName(call) != "builtin:append" {
				continue
			}
			v := call.Value()
			if v == nil {
				continue
			}
			nm, ok := types.Unalias(v.Type()).(*types.Named)
			if !ok || nm.Obj().Name() != "FileInfoSlice" {
				continue
			}
			// element appended
			elem := appendedElems(call)
			isCand := false
			for _, e := range elem {
				if vFieldLoad("restoreLevelCursor.candidate", nil)(e) {
					isCand = true
				}
			}
			if !isCand {
				continue // the snapshot append (covered by R1)
			}
			n++
			c.requireGuard(rule, plan, Site{call, "infos = append(infos, next.candidate)"},
				cmpFact(vFieldLoad("FileInfo.MaxTXID", vFieldLoad("restoreLevelCursor.candidate", nil)), token.GTR, curMax, "candidate.MaxTXID > currentMax"))
		}
		c.floor(rule, n, 1, "plan extension sites in CalcRestorePlan")

		// R4: success conditions.
		const rule4 = "R4-success-conditions"
		succ := successReturns(plan)
		c.floor(rule4, len(succ), 1, "success returns of CalcRestorePlan")
		isInfos := func(v ssa.Value) bool {
			nm, ok := types.Unalias(v.Type()).(*types.Named)
			if ok && nm.Obj().Name() == "FileInfoSlice" {
				return true
			}
			_, isSlice := v.Type().Underlying().(*types.Slice)
			return isSlice
		}
		txID := vParam("txID")
		maxOfPlan := vOr(vResult(nameIs("(ltx.FileInfoSlice).MaxTXID"), 0), vFieldLoad("FileInfo.MaxTXID", nil))
		for _, r := range succ {
			s := Site{r, "success return"}
			c.requireAlts(rule4, plan, s, []FP{
				cmpFact(vLenOf(isInfos), token.NEQ, vConstInt(0), "len(infos) != 0"),
				cmpFact(maxOfPlan, token.GEQ, txID, "plan already reaches txID"),
			})
			c.requireAlts(rule4, plan, s, []FP{
				cmpFact(txID, token.EQL, vConstInt(0), "txID == 0"),
				cmpFact(maxOfPlan, token.GEQ, txID, "plan max TXID >= txID"),
			})
		}

		// R5: latest-state gap check.
		const rule5 = "R5-gap-check"
		ens := []ssa.CallInstruction{}
		// (the per-cursor check may have been extracted: the site is then the helper's call)
		for _, vs := range callSitesV(plan, nameIs("(*ls.restoreLevelCursor).ensureCurrent")) {
			if at, ok := vs.At().(ssa.CallInstruction); ok {
				ens = append(ens, at)
			}
		}
		c.floor(rule5, len(ens), 1, "ensureCurrent calls (gap check loop) in CalcRestorePlan")
		for _, call := range ens {
			body := call.Block()
			// loop header: the predecessor-dominating block that is also a successor target of body's loop
			var header *ssa.BasicBlock
			for _, p := range body.Preds {
				if p.Dominates(body) {
					header = p
				}
			}
			if header == nil {
				c.fail(rule5, fnName(plan)+": gap check loop shape", c.pos(call), "cannot identify the loop header of the gap check")
				continue
			}
			// (a) within an iteration the loop continues only if the cursor is exhausted or contiguous
			curFld := vFieldLoad("restoreLevelCursor.current", nil)
			pass := []FP{
				cmpFact(curFld, token.EQL, vNil(), "cursor.current == nil"),
				cmpFact(vFieldLoad("FileInfo.MinTXID", curFld), token.LEQ, vPlusOne(vAny()), "current.MinTXID <= currentMax+1"),
			}
			r := reachable(plan, body, cutEdges(plan, pass...))
			c.check(!r[header], rule5, fnName(plan)+": a gap-check iteration continues only when [cursor.current == nil OR current.MinTXID <= currentMax+1]", c.pos(call),
				"loop header unreachable from the body once those edges are removed", "an iteration of the gap check can continue although the next file of the level starts beyond currentMax+1")
			// (b) a latest-state success passes the whole loop: exit edge of the loop header
			var exit []Edge
			for i, s := range header.Succs {
				if s != body && !reachable(plan, s, nil)[body] {
					exit = append(exit, Edge{header, i})
				}
			}
			ts := vParam("timestamp")
			alts := []FP{
				cmpFact(txID, token.NEQ, vConstInt(0), "txID != 0"),
				truthFact(vCall("(time.Time).IsZero", ts), false, "!timestamp.IsZero()"),
				cmpFact(vLenOf(isInfos), token.LEQ, vConstInt(0), "len(infos) == 0 (fails below)"),
			}
			cut := append(cutEdges(plan, alts...), exit...)
			for _, ret := range succ {
				rr := reachable(plan, nil, cut)
				c.check(len(exit) > 0 && !rr[ret.Block()], rule5, fnName(plan)+": a latest-state success return requires [txID != 0 OR !timestamp.IsZero() OR gap check completed for every level cursor]", c.pos(ret),
					"unreachable after removing those edges", "a restore of the latest state can succeed without the gap check having examined every level",
					witnessPath(c.P, plan, ret.Block(), cut)...)
			}
			// error result names the gap
			nErrEdges := 0
			for _, g := range deepFuncs(plan) {
				errEdges := factEdges(g, cmpFact(vFieldLoad("FileInfo.MinTXID", curFld), token.GTR, vPlusOne(vAny()), ""))
				nErrEdges += len(errEdges)
				gsucc := succ
				if g != plan {
					gsucc = successReturns(g)
				}
				for _, e := range errEdges {
					tgt := e.From.Succs[e.Succ]
					rr := reachable(g, tgt, nil)
					bad := false
					for _, ret := range gsucc {
						if rr[ret.Block()] {
							bad = true
						}
					}
					if g != plan {
						// the helper's error must fail the plan
						if k, isCall := call.(ssa.CallInstruction); isCall && k.Common().StaticCallee() == g {
							okF, _ := failStopOK(plan, k)
							bad = bad || !okF
						}
					}
					c.check(!bad, rule5, fnName(plan)+": a detected gap cannot reach a success return", c.pos(lastInstr(e.From)), "only error returns reachable", "a success return is reachable after a gap was detected")
				}
			}
			c.floor(rule5, nErrEdges, 1, "gap detection branch (current.MinTXID > currentMax+1)")
		}
	}

	if validity {
		// the snapshot listing the plan starts from is complete
		listingCompleteness(c, "R1-snapshot-choice", plan)
		// every level is listed from the beginning: `seek` filters on MinTXID, and a
		// compacted file that starts at or before the end of the chosen snapshot and
		// extends beyond it is exactly what the contiguity rule needs to see
		nl := 0
		for _, call := range callsToDeep(plan, isLTXFiles) {
			nl++
			sk := namedArg(call, "seek")
			c.check(sk != nil && vConstInt(0)(sk) && isConst(sk), "R7-levels-listed-from-start", fnName(plan)+": LTXFiles(level, seek = 0)", c.pos(call), "constant 0",
				"a level is listed from a later TXID: files whose MinTXID lies before it (but which extend the plan) are never offered, so a reachable target is reported missing or a latest-state restore stops early")
		}
		c.floor("R7-levels-listed-from-start", nl, 2, "LTXFiles calls in CalcRestorePlan")
	}

	if timeRules {
		// C15-R3: listings request accurate timestamps when restoring by time.
		const rule = "R3-use-metadata"
		n := 0
		for _, call := range callsToDeep(plan, isLTXFiles) {
			n++
			a := namedArg(call, "useMetadata")
			ok := false
			if u, isU := a.(*ssa.UnOp); isU && u.Op == token.NOT {
				ok = vCall("(time.Time).IsZero", vParam("timestamp"))(u.X)
			}
			c.check(ok, rule, fnName(plan)+": LTXFiles(useMetadata = !timestamp.IsZero())", c.pos(call), "argument provenance matches", "plan listing does not request accurate timestamps for a timestamp restore")
		}
		c.floor(rule, n, 2, "LTXFiles calls in CalcRestorePlan")
	}
}

// appendedElems returns the element values of append(s, e...) when the
// variadic argument is a literal slice built in place.
func appendedElems(call ssa.CallInstruction) []ssa.Value {
	a := call.Common().Args
	if len(a) != 2 {
		return nil
	}
	sl, ok := a[1].(*ssa.Slice)
	if !ok {
		return []ssa.Value{a[1]}
	}
	al, ok := sl.X.(*ssa.Alloc)
	if !ok {
		return []ssa.Value{a[1]}
	}
	var out []ssa.Value
	for _, r := range *al.Referrers() {
		if ia, ok := r.(*ssa.IndexAddr); ok {
			for _, rr := range *ia.Referrers() {
				if st, ok := rr.(*ssa.Store); ok && st.Addr == ia {
					out = append(out, st.Val)
				}
			}
		}
	}
	return out
}

// c08Comparator: restoreCandidateBetter is a lexicographic comparison of (curr, next): every
// ordering test compares the *same* field of the two candidates, and the first key is
// "reaches further" (next.MaxTXID > curr.MaxTXID).  A test that mixes fields degenerates to
// "last seen wins" within a level and loses the file that reaches the target.
func c08Comparator(c *Ctx) {
	const rule = "R8-candidate-order"
	fn := c.fn(rule, "ls.restoreCandidateBetter")
	if fn == nil || len(fn.Params) != 2 {
		return
	}
	fieldOf := func(v ssa.Value) (string, *ssa.Parameter) {
		for _, o := range origins(v) {
			u, ok := o.(*ssa.UnOp)
			if !ok || u.Op != token.MUL {
				continue
			}
			fa, ok := u.X.(*ssa.FieldAddr)
			if !ok {
				continue
			}
			for _, b := range origins(fa.X) {
				if p, ok := b.(*ssa.Parameter); ok && p.Parent() == fn {
					return fieldAddrName(fa), p
				}
			}
		}
		return "", nil
	}
	n := 0
	first := ""
	for _, b := range fn.Blocks {
		for _, in := range b.Instrs {
			var x, y ssa.Value
			var pos string
			what := ""
			switch k := in.(type) {
			case *ssa.BinOp:
				switch k.Op {
				case token.LSS, token.GTR, token.LEQ, token.GEQ, token.NEQ, token.EQL:
					x, y, pos, what = k.X, k.Y, c.pos(k), k.Op.String()
				}
			case *ssa.Call:
				nm := calleeName(k)
				if nm == "(time.Time).Before" || nm == "(time.Time).After" || nm == "(time.Time).Equal" || nm == "(time.Time).Compare" || strings.HasPrefix(nm, "cmp.Compare") {
					if len(k.Call.Args) == 2 {
						x, y, pos, what = k.Call.Args[0], k.Call.Args[1], c.pos(k), nm
					}
				}
			}
			if x == nil {
				continue
			}
			fx, px := fieldOf(x)
			fy, py := fieldOf(y)
			if px == nil || py == nil {
				continue
			}
			n++
			c.check(fx == fy && px != py, rule, fmt.Sprintf("%s: comparison %s relates the same field of the two candidates", fnName(fn), what), pos,
				fx+" of both", fmt.Sprintf("the comparator relates %s of one candidate to %s of the other: the order is no longer a consistent preference", fx, fy))
			if first == "" {
				first = fx
			}
		}
	}
	c.floor(rule, n, 4, "field comparisons in restoreCandidateBetter")
	c.check(first == "FileInfo.MaxTXID", rule, fnName(fn)+": the first key is how far the candidate reaches (MaxTXID)", c.P.Pos(fn.Pos()), "MaxTXID first", "first key is "+first)
	// the reach key prefers the larger MaxTXID of `next`
	okDir := false
	for _, r := range returns(fn) {
		for _, o := range origins(retOperand(r, 0)) {
			if k, ok := o.(*ssa.BinOp); ok {
				fx, px := fieldOf(k.X)
				fy, py := fieldOf(k.Y)
				if fx == "FileInfo.MaxTXID" && fy == "FileInfo.MaxTXID" && px != nil && py != nil {
					nextP := fn.Params[1]
					if (k.Op == token.GTR && px == nextP) || (k.Op == token.LSS && py == nextP) {
						okDir = true
					} else {
						okDir = false
					}
				}
			}
		}
	}
	// the three-way form: cmp.Or(cmp.Compare(next.MaxTXID, curr.MaxTXID), …) > 0
	for _, k := range calls(fn) {
		call, isCall := k.(*ssa.Call)
		if !isCall || !strings.HasPrefix(calleeName(call), "cmp.Compare") || len(call.Call.Args) != 2 {
			continue
		}
		fx, px := fieldOf(call.Call.Args[0])
		fy, py := fieldOf(call.Call.Args[1])
		if fx != "FileInfo.MaxTXID" || fy != "FileInfo.MaxTXID" || px == nil || py == nil {
			continue
		}
		// positive when next reaches further, and the function returns "… > 0"
		pos := false
		for _, r := range returns(fn) {
			for _, o := range origins(retOperand(r, 0)) {
				if b, ok := o.(*ssa.BinOp); ok && b.Op == token.GTR && vConstInt(0)(b.Y) {
					pos = true
				}
			}
		}
		okDir = pos && px == fn.Params[1]
	}
	c.check(okDir, rule, fnName(fn)+": better means next.MaxTXID > curr.MaxTXID", c.P.Pos(fn.Pos()), "direction matches", "the reach comparison is inverted or missing")
}
