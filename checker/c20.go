package main

// C20 — at most one instance holds an unexpired replica lease.
//
// The storage provides compare-and-swap on the object's ETag; mutual exclusion
// follows from the shape of the protocol, which is what is decided here.

import (
	"go/token"
	"strings"

	"golang.org/x/tools/go/ssa"
)

func init() {
	register(&PropSpec{
		ID:  "C20",
		Run: runC20,
		Explanation: "Protocol-shape rules on s3.Leaser (edge-cut reachability + value provenance): every PutObject carries exactly one conditional header on every path (If-None-Match:* when no ETag is known, If-Match:<etag> otherwise); " +
			"DeleteObject carries If-Match = lease.ETag; AcquireLease writes only when no lease exists or the existing one is expired, with the ETag returned by the same read that produced the lease it judged, " +
			"and generation = existing.Generation+1 (1 only on the not-exists path); a 412 maps to LeaseExistsError/ErrLeaseNotHeld and never to success; RenewLease keeps the generation and uses lease.ETag; " +
			"generation continuity across release (the state the generation derives from must survive ReleaseLease). R2b: the If-Match assignment dominates DeleteObject (no unconditional delete on any path). R9: after the conditional write only the ETag of the returned lease is assigned (the lease handed back is the record stored).",
		NotDecided:  "clock skew between instances; the provider honouring conditional writes; expiry races inside one TTL",
		Assumptions: []string{"S3 PutObject/DeleteObject honour If-Match / If-None-Match atomically and return 412 PreconditionFailed otherwise"},
	})
}

func runC20(c *Ctx) {
	acq := c.fn("R3-acquire-gate", "(*ls/s3.Leaser).AcquireLease")
	wr := c.fn("R1-conditional-put", "(*ls/s3.Leaser).writeLease")
	ren := c.fn("R7-renew", "(*ls/s3.Leaser).RenewLease")
	rel := c.fn("R2-conditional-delete", "(*ls/s3.Leaser).ReleaseLease")
	isPut := nameHasSuffix(".PutObject")
	isDel := nameHasSuffix(".DeleteObject")
	awsStr := func(m VM) VM { return vCall("github.com/aws/aws-sdk-go-v2/aws.String", m) }

	// R1: who may PutObject / DeleteObject in the leaser package, and conditional headers
	{
		const rule = "R1-conditional-put"
		nPut := 0
		for _, fn := range c.P.ProdFuncs() {
			if fn.Pkg == nil || !strings.HasSuffix(fn.Pkg.Pkg.Path(), "/s3") {
				continue
			}
			root := fn
			for root.Parent() != nil {
				root = root.Parent()
			}
			if root.Signature.Recv() == nil || !strings.Contains(root.Signature.Recv().Type().String(), "Leaser") {
				continue
			}
			for _, call := range callsTo(fn, isPut) {
				nPut++
				c.check(fnName(root) == "(*ls/s3.Leaser).writeLease", rule, "Leaser PutObject issued from "+fnName(root), c.pos(call), "writeLease", "the lease object is written outside writeLease (conditional headers not enforced there)")
			}
		}
		c.floor(rule, nPut, 1, "PutObject calls in s3.Leaser")
	}
	if wr != nil {
		const rule = "R1-conditional-put"
		etag := vParam("etag")
		for _, put := range callsTo(wr, isPut) {
			in := refArgs(put)[1]
			var al *ssa.Alloc
			for _, o := range origins(in) {
				if a, ok := o.(*ssa.Alloc); ok {
					al = a
				}
			}
			if al == nil {
				c.fail(rule, fnName(wr)+": PutObjectInput literal", c.pos(put), "cannot resolve the request struct")
				continue
			}
			var inm, im []*ssa.Store
			for _, st := range storesToField(wr, "PutObjectInput.IfNoneMatch") {
				inm = append(inm, st)
			}
			for _, st := range storesToField(wr, "PutObjectInput.IfMatch") {
				im = append(im, st)
			}
			c.floor(rule, len(inm), 1, "If-None-Match assignment")
			c.floor(rule, len(im), 1, "If-Match assignment")
			avoid := map[*ssa.BasicBlock]bool{}
			for _, st := range inm {
				c.check(awsStr(vConstStr("*"))(st.Val), rule, fnName(wr)+": IfNoneMatch = \"*\"", c.pos(st), "constant *", "If-None-Match is not the wildcard")
				c.requireGuard(rule, wr, Site{st, "input.IfNoneMatch = *"}, cmpFact(etag, token.EQL, vConstStr(""), "etag == \"\""))
				avoid[st.Block()] = true
			}
			for _, st := range im {
				c.check(awsStr(etag)(st.Val), rule, fnName(wr)+": IfMatch = caller's etag", c.pos(st), "aws.String(etag)", "If-Match is not the caller's ETag")
				c.requireGuard(rule, wr, Site{st, "input.IfMatch = etag"}, cmpFact(etag, token.NEQ, vConstStr(""), "etag != \"\""))
				avoid[st.Block()] = true
			}
			r := reachableAvoiding(wr, nil, nil, avoid)
			c.check(!r[put.Block()], rule, fnName(wr)+": every path to PutObject sets a conditional header", c.pos(put), "PutObject unreachable when the header assignments are removed", "an unconditional PutObject of the lease object is possible")
			// never both: the two assignments are mutually exclusive
			both := false
			for _, a := range inm {
				for _, b := range im {
					if reachable(wr, a.Block(), nil)[b.Block()] || reachable(wr, b.Block(), nil)[a.Block()] {
						both = true
					}
				}
			}
			c.check(!both, rule, fnName(wr)+": If-Match and If-None-Match are mutually exclusive", c.pos(put), "no path sets both", "a request can carry both conditional headers")
			// R6: result mapping
			perr := resultOf(put, 1)
			for _, ret := range successReturns(wr) {
				c.requireGuard("R6-412-never-success", wr, Site{ret, "success return"}, cmpFact(vIs(perr), token.EQL, vNil(), "PutObject err == nil"))
			}
			pcf := factEdges(wr, truthFact(vCall("ls/s3.isPreconditionFailed", vIs(perr)), true, ""))
			c.floor("R6-412-never-success", len(pcf), 1, "isPreconditionFailed(err) branch in writeLease")
			for _, e := range pcf {
				rr := reachable(wr, e.From.Succs[e.Succ], nil)
				ok := true
				n := 0
				for _, ret := range returns(wr) {
					if !rr[ret.Block()] {
						continue
					}
					n++
					isLE := false
					for _, o := range errOrigins(errOperand(ret)) {
						if mi, isMI := o.(*ssa.MakeInterface); isMI && strings.Contains(mi.X.Type().String(), "LeaseExistsError") {
							isLE = true
						}
					}
					ok = ok && isLE
				}
				c.check(ok && n > 0, "R6-412-never-success", fnName(wr)+": a 412 response returns *LeaseExistsError", c.pos(lastInstr(e.From)), "every return after the 412 branch yields LeaseExistsError", "a precondition failure is not reported as LeaseExistsError")
			}
		}
	}

	// R2: conditional delete
	if rel != nil {
		const rule = "R2-conditional-delete"
		ds := callsTo(rel, isDel)
		c.floor(rule, len(ds), 1, "DeleteObject call in ReleaseLease")
		etag := vFieldLoad("Lease.ETag", vParam("lease"))
		for _, d := range ds {
			f := compositeFields(refArgs(d)[1])
			v, ok := f["IfMatch"]
			c.check(ok && awsStr(etag)(v), rule, fnName(rel)+": DeleteObject If-Match = lease.ETag", c.pos(d), "aws.String(lease.ETag)", "the lease object can be deleted without matching the caller's ETag")
			// ... on every path: the header assignment dominates the request
			uncond := false
			for _, st := range fieldStoresOf(refArgs(d)[1], "IfMatch") {
				if dominates(st, d) {
					uncond = true
				}
			}
			c.check(uncond, rule, fnName(rel)+": If-Match is set on every path to DeleteObject", c.pos(d), "the assignment dominates the request", "an unconditional DeleteObject is possible: a holder whose lease was taken over can delete the new owner's lease object")
			c.requireGuard(rule, rel, Site{d, "DeleteObject"}, cmpFact(etag, token.NEQ, vConstStr(""), "lease.ETag != \"\""))
			c.requireGuard(rule, rel, Site{d, "DeleteObject"}, cmpFact(vParam("lease"), token.NEQ, vNil(), "lease != nil"))
			derr := resultOf(d, 1)
			for _, ret := range successReturns(rel) {
				c.requireGuard("R6-412-never-success", rel, Site{ret, "success return"}, cmpFact(vIs(derr), token.EQL, vNil(), "DeleteObject err == nil"))
			}
			for _, e := range factEdges(rel, truthFact(vCall("ls/s3.isPreconditionFailed", vIs(derr)), true, "")) {
				rr := reachable(rel, e.From.Succs[e.Succ], nil)
				ok := true
				for _, ret := range returns(rel) {
					if rr[ret.Block()] && !vGlobal("ls.ErrLeaseNotHeld")(errOperand(ret)) {
						ok = false
					}
				}
				c.check(ok, "R6-412-never-success", fnName(rel)+": a 412 on release returns ErrLeaseNotHeld", c.pos(lastInstr(e.From)), "ErrLeaseNotHeld", "a lost lease can be 'released' successfully")
			}
		}
	}

	// R3..R5: acquire
	if acq != nil {
		rl := callsTo(acq, nameIs("(*ls/s3.Leaser).readLease"))
		ws := callsTo(acq, nameIs("(*ls/s3.Leaser).writeLease"))
		c.floor("R3-acquire-gate", len(ws), 1, "writeLease call in AcquireLease")
		c.floor("R3-acquire-gate", len(rl), 1, "readLease call in AcquireLease")
		for _, w := range ws {
			// the read whose result gates the write: the one dominating it
			var gate ssa.CallInstruction
			for _, r := range rl {
				if dominates(r, w) {
					gate = r
				}
			}
			if gate == nil {
				c.fail("R3-acquire-gate", fnName(acq)+": a readLease dominates writeLease", c.pos(w), "no dominating read")
				continue
			}
			existing := vIs(resultOf(gate, 0))
			c.requireAlts("R3-acquire-gate", acq, Site{w, "writeLease"}, []FP{
				cmpFact(existing, token.EQL, vNil(), "existing == nil"),
				truthFact(vCall("(*ls.Lease).IsExpired", existing), true, "existing.IsExpired()"),
			})
			// read errors other than not-exist abort
			rerr := vIs(resultOf(gate, errResultIndex(gate.Common().Signature())))
			c.requireAlts("R3-acquire-gate", acq, Site{w, "writeLease"}, []FP{
				cmpFact(rerr, token.EQL, vNil(), "readLease err == nil"),
				truthFact(vCall("errors.Is", rerr, vGlobal("os.ErrNotExist")), true, "errors.Is(err, os.ErrNotExist)"),
			})
			// the ETag of that read: its ETag result, or the ETag field of the lease it returned
			// ("" only as the other alternative, when no lease exists)
			okTok, sawTok := true, false
			for _, o := range origins(namedArg(w, "etag")) {
				switch {
				case resultOf(gate, 1) != nil && !isErrorType(resultOf(gate, 1).Type()) && o == resultOf(gate, 1):
					sawTok = true
				case vFieldLoad("Lease.ETag", vIs(resultOf(gate, 0)))(o):
					sawTok = true
				case isConst(o) && vConstStr("")(o):
				default:
					okTok = false
				}
			}
			c.check(okTok && sawTok, "R4-token-from-same-read", fnName(acq)+": writeLease etag = ETag returned by the read that produced `existing`", c.pos(w),
				"result 1 of the gating readLease", "the conditional write does not use the ETag of the lease state it judged (a concurrent takeover would be overwritten)")
			// generation
			f := compositeFields(namedArg(w, "lease"))
			gen, ok := f["Generation"]
			if !ok {
				c.fail("R5-generation", fnName(acq)+": new lease literal has Generation", c.pos(w), "Generation not set")
			} else {
				okAll := true
				n := 0
				for _, inc := range incomings(gen) {
					n++
					switch {
					case vConstInt(1)(inc.Val) && isConst(inc.Val):
						if !inc.hasFact(cmpFact(existing, token.EQL, vNil(), "")) {
							okAll = false
						}
					case vPlusOne(vFieldLoad("Lease.Generation", existing))(inc.Val):
					default:
						okAll = false
					}
				}
				c.check(okAll && n >= 2, "R5-generation", fnName(acq)+": generation = existing.Generation+1, constant 1 only when no lease exists", c.pos(w), "phi over {1 on existing==nil, existing.Generation+1}", "the new owner's generation does not strictly exceed the previous owner's")
			}
			// success only on write success, new ETag recorded
			werr := resultOf(w, 1)
			for _, ret := range successReturns(acq) {
				c.requireGuard("R6-412-never-success", acq, Site{ret, "success return"}, cmpFact(vIs(werr), token.EQL, vNil(), "writeLease err == nil"))
			}
			stored := false
			for _, st := range storesToFieldDeep(acq, "Lease.ETag") {
				if vIs(resultOf(w, 0))(st.Val) {
					stored = true
				}
				for _, o := range origins(st.Val) {
					if o == resultOf(w, 0) {
						stored = true
					}
				}
			}
			c.check(stored, "R4-token-from-same-read", fnName(acq)+": returned lease carries the ETag of its own write", c.pos(w), "newLease.ETag = writeLease result", "the holder would renew/release with a stale ETag")
		}
	}

	// R7: renew
	if ren != nil {
		const rule = "R7-renew"
		ws := callsTo(ren, nameIs("(*ls/s3.Leaser).writeLease"))
		c.floor(rule, len(ws), 1, "writeLease call in RenewLease")
		lease := vParam("lease")
		for _, w := range ws {
			etag := vFieldLoad("Lease.ETag", lease)
			c.check(etag(namedArg(w, "etag")), rule, fnName(ren)+": renewal is conditional on lease.ETag", c.pos(w), "etag = lease.ETag", "renewal does not use the holder's ETag")
			c.requireGuard(rule, ren, Site{w, "writeLease"}, cmpFact(etag, token.NEQ, vConstStr(""), "lease.ETag != \"\""))
			c.requireGuard(rule, ren, Site{w, "writeLease"}, cmpFact(lease, token.NEQ, vNil(), "lease != nil"))
			f := compositeFields(namedArg(w, "lease"))
			gen, ok := f["Generation"]
			c.check(ok && vFieldLoad("Lease.Generation", lease)(gen) && !vBinOp(token.ADD, vAny(), vAny(), false)(gen), rule, fnName(ren)+": renewal keeps the generation", c.pos(w), "Generation = lease.Generation", "renewal changes the generation")
			werr := resultOf(w, 1)
			for _, ret := range successReturns(ren) {
				c.requireGuard("R6-412-never-success", ren, Site{ret, "success return"}, cmpFact(vIs(werr), token.EQL, vNil(), "writeLease err == nil"))
			}
		}
	}

	// R9: the lease handed back to the caller is the record that was stored: after the
	// conditional write only the ETag may be assigned (a later ExpiresAt/Generation/Owner
	// would make the holder believe in a lease that differs from the stored one)
	for _, fn := range []*ssa.Function{acq, ren} {
		if fn == nil {
			continue
		}
		const rule = "R9-returned-lease-is-stored-lease"
		for _, w := range callsTo(fn, nameIs("(*ls/s3.Leaser).writeLease")) {
			lease := namedArg(w, "lease")
			n := 0
			for _, b := range fn.Blocks {
				for _, in := range b.Instrs {
					st, ok := in.(*ssa.Store)
					if !ok {
						continue
					}
					fa, ok := st.Addr.(*ssa.FieldAddr)
					if !ok || !strings.HasPrefix(fieldAddrName(fa), "Lease.") || !(fa.X == lease || sameValue(fa.X, lease)) {
						continue
					}
					n++
					f := fieldAddrName(fa)
					if f == "Lease.ETag" {
						continue
					}
					c.check(dominates(st, w) && st.Block() != nil && !(st.Block() == w.Block() && instrIndex(st) > instrIndex(w)), rule,
						fnName(fn)+": "+f+" of the new lease is final before it is written", c.pos(st), "assigned before writeLease",
						f+" is changed after the conditional write: the lease returned to the caller is not the one stored (two holders can both see an unexpired lease)")
				}
			}
			_ = n
		}
	}

	// R10: the expiry that is stored is exactly the expiry the holder keeps: nothing on
	// the way to the lock file reduces ExpiresAt's precision (a holder whose in-memory
	// lease outlives the stored record shares the lease with whoever acquires in between)
	{
		const rule = "R10-stored-expiry-is-exact"
		nUse := 0
		isExp := func(v ssa.Value) bool {
			for _, o := range origins(v) {
				switch x := o.(type) {
				case *ssa.UnOp:
					if fa, ok := x.X.(*ssa.FieldAddr); ok && fieldAddrName(fa) == "Lease.ExpiresAt" {
						return true
					}
				case *ssa.Field:
					if fieldName(x.X.Type(), x.Field) == "Lease.ExpiresAt" {
						return true
					}
				case *ssa.Call:
					// t.UTC(), t.In(loc), t.Local() keep the instant
					switch calleeName(x) {
					case "(time.Time).UTC", "(time.Time).In", "(time.Time).Local":
						if len(x.Call.Args) > 0 && func() bool {
							for _, oo := range origins(x.Call.Args[0]) {
								switch y := oo.(type) {
								case *ssa.UnOp:
									if fa, ok := y.X.(*ssa.FieldAddr); ok && fieldAddrName(fa) == "Lease.ExpiresAt" {
										return true
									}
								case *ssa.Field:
									if fieldName(y.X.Type(), y.Field) == "Lease.ExpiresAt" {
										return true
									}
								}
							}
							return false
						}() {
							return true
						}
					}
				}
			}
			return false
		}
		for _, fn := range c.P.ProdFuncs() {
			for _, call := range calls(fn) {
				nm := calleeName(call)
				a := refArgs(call)
				anyExp := false
				for _, x := range a {
					if isExp(x) {
						anyExp = true
					}
				}
				if anyExp {
					nUse++
				}
				if len(a) == 0 || !isExp(a[0]) {
					continue
				}
				switch nm {
				case "(time.Time).After", "(time.Time).Before", "(time.Time).Sub", "(time.Time).IsZero", "(time.Time).Equal", "(time.Time).UTC", "(time.Time).In", "(time.Time).Local", "(time.Time).String":
					nUse++
				case "(time.Time).Truncate", "(time.Time).Round", "(time.Time).Unix", "(time.Time).UnixMilli":
					nUse++
					c.fail(rule, fnName(fn)+": "+nm+" applied to Lease.ExpiresAt", c.pos(call), "the lease expiry is reduced in precision: the stored or compared expiry can precede the one the holder relies on")
				case "(time.Time).Format", "(time.Time).AppendFormat":
					nUse++
					layout := ""
					if len(a) > 1 {
						layout, _ = constString(a[len(a)-1])
					}
					c.check(strings.Contains(layout, ".999999999") || strings.Contains(layout, ".000000000"), rule, fnName(fn)+": Lease.ExpiresAt is formatted with nanosecond precision", c.pos(call), "layout keeps fractional seconds",
						"the stored expiry drops the fractional second: it is up to a second earlier than the expiry the holder keeps, so a second instance can take the lease over while the first still considers it valid")
				}
			}
		}
		c.floor(rule, nUse, 1, "uses of Lease.ExpiresAt")
	}

	// R11: the expiry *decision* is exact as well: what (*Lease).IsExpired returns derives from
	// ExpiresAt and the clock through comparisons and differences only; no rounding,
	// truncation, unit conversion or division on the way (through the functions it calls)
	if fn := c.fn("R11-expiry-decision-is-exact", "(*ls.Lease).IsExpired"); fn != nil {
		const rule = "R11-expiry-decision-is-exact"
		lossy := ""
		seenV := map[ssa.Value]bool{}
		var walk func(v ssa.Value, depth int)
		walk = func(v ssa.Value, depth int) {
			if v == nil || seenV[v] || depth > 6 || lossy != "" {
				return
			}
			seenV[v] = true
			for _, o := range origins(v) {
				switch x := o.(type) {
				case *ssa.Call:
					nm := calleeName(x)
					switch {
					case strings.HasSuffix(nm, ".Round") || strings.HasSuffix(nm, ".Truncate") || strings.HasSuffix(nm, ".Unix") || strings.HasSuffix(nm, ".UnixMilli") ||
						strings.HasSuffix(nm, ".Seconds") || strings.HasSuffix(nm, ".Minutes") || strings.HasSuffix(nm, ".Hours") || strings.HasSuffix(nm, ".Milliseconds") || strings.HasSuffix(nm, ".Microseconds"):
						lossy = nm + " @ " + c.pos(x)
						return
					}
					if h := x.Call.StaticCallee(); h != nil && h.Blocks != nil && c.P.InP(h) {
						for _, r := range returns(h) {
							for i := range r.Results {
								walk(retOperand(r, i), depth+1)
							}
						}
					}
					for _, a := range x.Call.Args {
						walk(a, depth+1)
					}
				case *ssa.BinOp:
					if x.Op == token.QUO || x.Op == token.REM || x.Op == token.SHR {
						lossy = "integer " + x.Op.String() + " @ " + c.pos(x)
						return
					}
					walk(x.X, depth+1)
					walk(x.Y, depth+1)
				case *ssa.Convert:
					walk(x.X, depth+1)
				case *ssa.ChangeType:
					walk(x.X, depth+1)
				}
			}
		}
		n := 0
		for _, r := range returns(fn) {
			if len(r.Results) == 1 {
				n++
				walk(retOperand(r, 0), 0)
			}
		}
		c.floor(rule, n, 1, "returns of Lease.IsExpired")
		c.check(lossy == "", rule, fnName(fn)+": the expiry decision compares ExpiresAt with the clock at full precision", c.P.Pos(fn.Pos()),
			"comparisons and differences only", "the decision passes through "+lossy+": a lease with a fraction of its lifetime left is reported expired and can be taken over while its holder still relies on it")
	}

	// R8: generation continuity across release (F6)
	if acq != nil && rel != nil {
		const rule = "R8-generation-continuity"
		deletes := len(callsTo(rel, isDel)) > 0
		constOne := false
		for _, w := range callsTo(acq, nameIs("(*ls/s3.Leaser).writeLease")) {
			if gen, ok := compositeFields(namedArg(w, "lease"))["Generation"]; ok {
				for _, inc := range incomings(gen) {
					if isConst(inc.Val) {
						constOne = true
					}
				}
			}
		}
		c.check(!(deletes && constOne), rule, "(*ls/s3.Leaser).ReleaseLease deletes the lease object while AcquireLease restarts at a constant generation when none exists", c.P.Pos(rel.Pos()),
			"generation state survives release", "ReleaseLease removes the only record of the generation (DeleteObject) and AcquireLease then starts again at the constant 1: the generation does not strictly increase from one owner to the next")
	}
}

func isConst(v ssa.Value) bool { _, ok := v.(*ssa.Const); return ok }

// fieldStoresOf lists the stores to field `name` of the struct literal v denotes.
func fieldStoresOf(v ssa.Value, name string) []*ssa.Store {
	var al *ssa.Alloc
	for _, o := range origins(v) {
		if a, ok := o.(*ssa.Alloc); ok {
			al = a
		}
	}
	if al == nil {
		return nil
	}
	var out []*ssa.Store
	for _, r := range *al.Referrers() {
		fa, ok := r.(*ssa.FieldAddr)
		if !ok {
			continue
		}
		fn := fieldAddrName(fa)
		if i := strings.IndexByte(fn, '.'); i >= 0 {
			fn = fn[i+1:]
		}
		if fn != name {
			continue
		}
		for _, rr := range *fa.Referrers() {
			if st, ok := rr.(*ssa.Store); ok && st.Addr == fa {
				out = append(out, st)
			}
		}
	}
	return out
}
