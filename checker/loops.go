package main

import "golang.org/x/tools/go/ssa"

// NatLoop is a natural loop: header, the set of blocks in the loop and the
// back edges into the header.
type NatLoop struct {
	Header *ssa.BasicBlock
	Blocks map[*ssa.BasicBlock]bool
	Back   []Edge
}

// naturalLoops computes the natural loops of fn (one per header).
func naturalLoops(fn *ssa.Function) []*NatLoop {
	byHeader := map[*ssa.BasicBlock]*NatLoop{}
	var order []*ssa.BasicBlock
	for _, b := range fn.Blocks {
		for i, s := range b.Succs {
			if s.Dominates(b) {
				l := byHeader[s]
				if l == nil {
					l = &NatLoop{Header: s, Blocks: map[*ssa.BasicBlock]bool{s: true}}
					byHeader[s] = l
					order = append(order, s)
				}
				l.Back = append(l.Back, Edge{b, i})
				// collect body: predecessors of b up to header
				work := []*ssa.BasicBlock{b}
				for len(work) > 0 {
					x := work[len(work)-1]
					work = work[:len(work)-1]
					if l.Blocks[x] {
						continue
					}
					l.Blocks[x] = true
					for _, p := range x.Preds {
						work = append(work, p)
					}
				}
			}
		}
	}
	var out []*NatLoop
	for _, h := range order {
		out = append(out, byHeader[h])
	}
	return out
}

// innermostLoopOf returns the smallest natural loop containing block b.
func innermostLoopOf(loops []*NatLoop, b *ssa.BasicBlock) *NatLoop {
	var best *NatLoop
	for _, l := range loops {
		if l.Blocks[b] && (best == nil || len(l.Blocks) < len(best.Blocks)) {
			best = l
		}
	}
	return best
}
