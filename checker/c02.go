package main

// C02 — every replicated TXID is one consistent committed state; TXIDs monotone.

import (
	"go/token"

	"golang.org/x/tools/go/ssa"
)

func init() {
	register(&PropSpec{
		ID:  "C02",
		Run: runC02,
		Explanation: "Commit gating of the WAL page map (edge-cut: page-map updates only under commit != 0, no read after a bad frame, byte budget only at commit frames, trim above commit, maxOffset from committed frames only), " +
			"TXID allocation and header provenance in (*DB).sync (MinTXID = MaxTXID = exec.pos.TXID+1, same value in the file name, Commit/WALOffset/WALSize/salts from the verified cursor and the page map), " +
			"position/ack fields set only after the rename and directory sync succeeded, bounded snapshot read (budget = walEndOffset - header, success cut by maxOffset <= walEndOffset, header MinTXID=1/MaxTXID=captured position, DB.Snapshot writes (9, 1, pos.TXID)), " +
			"and the executor/checkpoint lock hand-off (lockset dataflow: chkMu.RLock taken with execSem held; execCheckpoint only under execSem+chkMu(W); sync/verifyAndSync only under execSem). Shared with C04: default-deny continuity decision, helper verdicts, restart-from-header on a restarted WAL, baseline after a wipe and the behind-replica fetch (TXIDs are never re-minted, no WAL generation is skipped).",
		NotDecided:  "that each TXID's content equals an application commit (needs SQLite's WAL semantics and the continuity decision of C04); compaction preserving states (ltx library)",
		Assumptions: []string{"Go sync.RWMutex / semaphore.Weighted semantics"},
	})
}

func runC02(c *Ctx) {
	c09PageMap(c, "C02")
	ltxHeaderRules(c)
	syncResultRules(c)
	c02Snapshot(c)
	c02Locks(c)
	// no commit is checkpointed away between the sealed copy and the WAL restart
	checkpointProtocolRules(c)
	// TXIDs are never re-minted and no WAL generation is skipped: the continuity
	// decision's necessary conditions and the baseline rules (shared with C04)
	c04DefaultDeny(c)
	c04Helpers(c)
	c04Wipe(c)
	c04Behind(c)
	// a followed database labelled with TXID n holds exactly the state of n: files are
	// applied only when contiguous with the follower's position (shared with C16)
	c16Contiguous(c)
}

func c02Snapshot(c *Ctx) {
	const rule = "R5-bounded-snapshot"
	fn := c.fn(rule, "(*ls.DB).snapshotReader")
	if fn == nil {
		return
	}
	name := fnName(fn)
	var body *ssa.Function
	for _, f := range withClosures(fn) {
		if len(callsTo(f, isPageMapCall)) > 0 {
			body = f
		}
	}
	if body == nil {
		c.fail(rule, name+": goroutine calling pageMap", c.P.Pos(fn.Pos()), "not found")
		return
	}
	c.touch(body)
	endOff := vFieldLoad("snapshotReadPosition.walEndOffset", nil)
	for _, p := range callsTo(body, isPageMapCall) {
		mb := namedArg(p, "maxBytes")
		c.check(vBinOp(token.SUB, endOff, vConstInt(32), false)(mb), rule, name+": pageMap budget = pos.walEndOffset - WALHeaderSize", c.pos(p), "provenance matches", "the snapshot's WAL read is not bounded by the advertised position")
		c.requireGuard(rule, body, Site{p, "pageMap"}, cmpFact(vBinOp(token.SUB, endOff, vConstInt(32), false), token.GTR, vConstInt(0), "maxBytes > 0 (0 would mean unbounded)"))
	}
	call, f := headerLiteral(body)
	if call == nil {
		c.fail(rule, name+": snapshot header literal", c.P.Pos(fn.Pos()), "not found")
		return
	}
	maxOff := vResult(isPageMapCall, 1)
	c.requireGuard(rule, body, Site{call, "EncodeHeader (snapshot)"}, cmpFact(maxOff, token.LEQ, endOff, "maxOffset <= pos.walEndOffset"))
	c.check(vConstInt(1)(f["MinTXID"]) && isConst(f["MinTXID"]), rule, name+": snapshot header MinTXID = 1", c.pos(call), "constant 1", "snapshot does not start at TXID 1")
	c.check(vFieldPath("snapshotReadPosition.pos", "Pos.TXID")(f["MaxTXID"]), rule, name+": snapshot header MaxTXID = captured position", c.pos(call), "pos.pos.TXID", "snapshot advertises a TXID other than the captured position")
	c.check(vFieldLoad("snapshotReadPosition.pageSize", nil)(f["PageSize"]), rule, name+": snapshot header PageSize = captured page size", c.pos(call), "pos.pageSize", "page size mismatch")
	if v, ok := f["Commit"]; ok {
		commitRule(c, rule, body, v, call)
	}
	pm := vResult(isPageMapCall, 0)
	for _, w := range callsTo(body, nameIs("(*ls.DB).writeLTXFromDB")) {
		pmArg := namedArg(w, "pageMap")
		okPM := false
		for _, o := range origins(pmArg) {
			if pm(o) {
				okPM = true
			}
		}
		c.check(sameValue(namedArg(w, "commit"), f["Commit"]) && okPM, rule, name+": writeLTXFromDB(commit = header Commit, pageMap)", c.pos(w), "arguments match", "snapshot body and header disagree")
	}
	// DB.Snapshot writes (SnapshotLevel, 1, pos.TXID)
	if sn := c.fn(rule, "(*ls.DB).Snapshot"); sn != nil {
		for _, w := range callsTo(sn, nameHasSuffix(".WriteLTXFile")) {
			pos := vFieldLoad("Pos.TXID", vResult(nameIs("(*ls.DB).SnapshotReader"), 0))
			ok := vConstInt(9)(namedArg(w, "level")) && vConstInt(1)(namedArg(w, "minTXID")) && pos(namedArg(w, "maxTXID")) && vResult(nameIs("(*ls.DB).SnapshotReader"), 1)(w.Common().Args[len(w.Common().Args)-1])
			c.check(ok, rule, fnName(sn)+": WriteLTXFile(SnapshotLevel, 1, pos.TXID, reader)", c.pos(w), "arguments match", "snapshot is stored under a name that does not match the position its content was captured at")
		}
	}
	// SnapshotReader returns the captured position
	if sr := c.fn(rule, "(*ls.DB).SnapshotReader"); sr != nil {
		for _, r := range successReturns(sr) {
			c.check(vFieldLoad("snapshotReadPosition.pos", vResult(nameIs("(*ls.DB).snapshotPosition"), 0))(retOperand(r, 0)), rule, fnName(sr)+": returns the position captured by snapshotPosition", c.pos(r), "pos.pos", "returned position is not the captured one")
			for _, call := range callsTo(sr, nameIs("(*ls.DB).snapshotReader")) {
				c.check(vResult(nameIs("(*ls.DB).snapshotPosition"), 0)(namedArg(call, "pos")), rule, fnName(sr)+": reader built for the captured position", c.pos(call), "same position object", "reader and advertised position differ")
			}
		}
	}
	// snapshotPosition: walEndOffset from lastSyncedWALOffset / LTX header, position from db.Pos()
	if sp := c.fn(rule, "(*ls.DB).snapshotPosition"); sp != nil {
		for _, r := range successReturns(sp) {
			v := retOperand(r, 0)
			f := compositeFields(v)
			if f == nil {
				for _, o := range origins(v) {
					if ff := compositeFields(o); ff != nil {
						f = ff
					}
				}
			}
			ok := f != nil && vResult(nameIs("(*ls.DB).Pos"), 0)(f["pos"]) && vOr(vResult(nameIs("(*ls.DB).snapshotWALEndOffset"), 0), vConstInt(32))(f["walEndOffset"])
			c.check(ok, rule, fnName(sp)+": captured {pos = db.Pos(), walEndOffset = snapshotWALEndOffset(pos)}", c.pos(r), "provenance matches", "captured snapshot position is inconsistent")
		}
	}
}
