package main

// Listing completeness: replica listings are paginated for the cloud backends,
// and a failure after the first page is reported only through the iterator's
// Err()/Close().  A function that consumes a listing (calls Next on it) and
// reports success must therefore have consulted one of them: otherwise a
// truncated listing is taken for the complete one ("replica has nothing
// newer", "no file covers this range").

import (
	"go/token"

	"golang.org/x/tools/go/ssa"
)

var isIterNext = nameIs("iface:ltx.FileIterator.Next")
var isIterTerminal = nameIs("iface:ltx.FileIterator.Close", "iface:ltx.FileIterator.Err")

// listingCompleteness checks fn; it returns the number of consumed listings found.
func listingCompleteness(c *Ctx, rule string, fn *ssa.Function) int {
	n := 0
	for _, l := range callsTo(fn, isLTXFiles) {
		itr := resultOf(l, 0)
		if itr == nil {
			continue
		}
		isItr := func(v ssa.Value) bool { return v == itr || sameValue(v, itr) }
		var nexts []ssa.CallInstruction
		for _, k := range callsTo(fn, isIterNext) {
			if isItr(k.Common().Value) {
				nexts = append(nexts, k)
			}
		}
		if len(nexts) == 0 {
			continue // handed to someone else (cursor objects, returned iterators)
		}
		n++
		// checked terminal calls: result used (not a bare statement, not deferred)
		var checked []ssa.CallInstruction
		for _, k := range callsTo(fn, isIterTerminal) {
			call, isCall := k.(*ssa.Call)
			if !isCall || !isItr(k.Common().Value) || !hasUses(call) {
				continue
			}
			checked = append(checked, k)
		}
		// only the conclusion "the listing is exhausted" needs the terminal error: start
		// at the false edge of Next() and remove the nil edges of the checked terminals
		var cut []Edge
		for _, k := range checked {
			cut = append(cut, factEdges(fn, cmpFact(vIs(k.Value()), token.EQL, vNil(), ""))...)
		}
		bad := ""
		for _, nx := range nexts {
			for _, e := range factEdges(fn, truthFact(vIs(nx.Value()), false, "")) {
				// the loop's own exit test (not an edge that merely implies it)
				if ifi, ok := lastInstr(e.From).(*ssa.If); !ok || edgeFact(ifi, e.Succ).L != nx.Value() {
					continue
				}
				r := reachable(fn, e.From.Succs[e.Succ], cut)
				for _, ret := range successReturns(fn) {
					if !r[ret.Block()] {
						continue
					}
					// `return x, itr.Close()`
					viaTerminal := false
					if eo := errOperand(ret); eo != nil {
						for _, k := range checked {
							if eo == k.Value() || sameValue(eo, k.Value()) {
								viaTerminal = true
							}
						}
					}
					// a return taken because the terminal call reported an error
					for _, k := range checked {
						if g, k2 := guardedBy(ret, cmpFact(vIs(k.Value()), token.NEQ, vNil(), "")); k2 > 0 && g {
							viaTerminal = true
						}
					}
					if !viaTerminal {
						bad = c.pos(ret)
					}
				}
			}
		}
		reason, exc := listingPrefixOK[fnName(fn)]
		if !exc {
			// a helper extracted from such a consumer inherits the exception
			if hosts := helperHosts(fnName(fn)); len(hosts) > 0 {
				exc = true
				for _, h := range hosts {
					r, ok := listingPrefixOK[h]
					if !ok {
						exc = false
					}
					reason = r
				}
			}
		}
		if exc {
			c.ok(rule, fnName(fn)+": acts on a prefix of the listing [named exception]", c.pos(l), reason)
			continue
		}
		c.check(bad == "", rule, fnName(fn)+": a listing that was iterated is complete before success is reported (iterator Err()/Close() consulted)", c.pos(l),
			"every success return after the loop lies behind the nil edge of itr.Err()/itr.Close() (or returns it)",
			"success return at "+bad+" is reachable without consulting the iterator's terminal error: a listing that failed after its first page is taken for the complete listing")
	}
	return n
}

// listingCompletenessAll applies the rule to every production function that consumes a listing.
func listingCompletenessAll(c *Ctx, rule string, floor int) {
	n := 0
	for _, fn := range c.P.ProdFuncs() {
		n += listingCompleteness(c, rule, fn)
	}
	c.floor(rule, n, floor, "functions iterating a replica listing")
}

// listingPrefixOK: consumers for which a listing cut short by a storage error is
// harmless (they act on a prefix of an ordered listing and a later run resumes).
var listingPrefixOK = map[string]string{
	"(*ls.Compactor).Compact":                  "compacts the files listed from MaxTXID(dst)+1: a prefix yields a shorter but contiguous output; the next run continues after it",
	"(*ls.Compactor).EnforceSnapshotRetention": "deletes only listed files older than the cutoff and keeps the last listed one: a prefix deletes less",
	"(*ls.Compactor).EnforceRetentionByTXID":   "deletes only listed files below the floor and keeps the last listed one: a prefix deletes less",
	"(*ls.Compactor).EnforceL0Retention":       "coverage bound and candidates both shrink with a prefix: deletes less",
	"(*ls.DB).EnforceSnapshotRetention":        "as Compactor.EnforceSnapshotRetention; the returned floor is a retained snapshot's bound in either case",
	"(*ls.DB).EnforceL0RetentionByTime":        "coverage bound and candidates both shrink with a prefix: deletes less",
	"(*ls.Hydrator).CatchUp":                   "applies the listed files in order; what a prefix misses is applied by the next poll",
	"(*ls.VFSFile).pollLevel":                  "applies the listed files in order; what a prefix misses is applied by the next poll",
	"(*ls/cmd/litestream.LTXCommand).Run":      "prints the listing (diagnostic command)",
}
