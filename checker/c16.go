package main

// C16 — follow-mode restore converges and resumes correctly after being killed.

import (
	"go/token"

	"golang.org/x/tools/go/ssa"
)

func init() {
	register(&PropSpec{
		ID:  "C16",
		Run: runC16,
		Explanation: "Follow-mode skeleton on every path: the sidecar is written only after a successful apply that advanced the TXID, and the in-memory TXID advances only after the sidecar write succeeded (so a kill can never leave a sidecar ahead of the applied data, nor skip a file after a failed apply); " +
			"each file is applied only if it is contiguous with and extends the current TXID (level 0 and gap-filling levels), and the current TXID is advanced only on the apply's nil edge; applyLTXFile syncs before truncating, verifies the file checksum (dec.Close) and syncs before reporting success, under the exclusive file lock; " +
			"the sidecar is published by tmp+fsync+rename+dirsync (C11 engine); follow returns only on context cancellation or a sidecar failure; " +
			"resume validation: any upper bound enforced on the saved TXID must cover every level whose files can advance the sidecar (writer/reader agreement, F4).",
		NotDecided:  "convergence and byte equality with a full restore (run-time values); fairness of the poll loop",
		Assumptions: []string{"fcntl byte-range locks exclude SQLite readers"},
	})
}

func c16Config() *EFConfig {
	return &EFConfig{
		Rule:  "R2-errflow-follow-cone",
		Roots: []string{"(*ls.Replica).applyNewLTXFiles", "(*ls.Replica).applyLTXFile", "(*ls.Replica).fillFollowGap", "ls.WriteTXIDFile", "ls.ReadTXIDFile"},
		Pkgs:  corePkgs,
		Exceptions: append([]EFException{
			{Fn: "ls.ReadTXIDFile", Callee: "os.ReadFile", Tolerate: []string{"os.IsNotExist"}, Reason: "no sidecar = first run"},
			{Fn: "(*ls.Replica).applyLTXFile", Callee: "(*ltx.Decoder).DecodePage", Tolerate: []string{"errors.Is:io.EOF"}, Reason: "EOF ends the page list"},
			{Fn: "ls/internal.LockFileExclusive", Callee: "ls/internal.setFcntlLock", DroppedOnly: true, Reason: "unlock inside the failure branch"},
		}, ackExceptions...),
	}
}

func runC16(c *Ctx) {
	offsetWidthRule(c, "R8-offsets-64bit")
	follow := c.fn("R1-sidecar-after-apply", "(*ls.Replica).follow")
	if follow != nil {
		const rule = "R1-sidecar-after-apply"
		aps := callsTo(follow, nameIs("(*ls.Replica).applyNewLTXFiles"))
		ws := callsTo(follow, nameIs("ls.WriteTXIDFile"))
		c.floor(rule, len(aps), 1, "applyNewLTXFiles call in follow")
		c.floor(rule, len(ws), 1, "WriteTXIDFile call in follow")
		for _, w := range ws {
			for _, ap := range aps {
				newTXID := resultOf(ap, 0)
				c.requireGuard(rule, follow, Site{w, "WriteTXIDFile"}, cmpFact(vIs(resultOf(ap, 1)), token.EQL, vNil(), "applyNewLTXFiles err == nil"))
				c.requireGuard(rule, follow, Site{w, "WriteTXIDFile"}, cmpFact(vIs(newTXID), token.GTR, vAny(), "newTXID > lastTXID"))
				c.check(vIs(newTXID)(w.Common().Args[1]) && vParam("outputPath")(w.Common().Args[0]), rule, fnName(follow)+": sidecar records the TXID returned by the apply, next to the output", c.pos(w), "provenance matches", "the sidecar does not record the applied TXID")
				// lastTXID phi: loop-carried; advances only on the sidecar's nil edge
				for _, e := range factEdges(follow, cmpFact(vIs(newTXID), token.GTR, vAny(), "")) {
					ifi := lastInstr(e.From).(*ssa.If)
					f := edgeFact(ifi, e.Succ)
					last := f.R
					if f.R == newTXID {
						last = f.L
					}
					phi, ok := last.(*ssa.Phi)
					if !ok {
						c.fail(rule, fnName(follow)+": lastTXID is a loop-carried value", c.pos(ifi), "unexpected shape")
						continue
					}
					for i, ev := range phi.Edges {
						pred := phi.Block().Preds[i]
						switch {
						case ev == ssa.Value(phi):
						case vParam("lastTXID")(ev) && isParam(ev):
						case ev == newTXID:
							c.check(edgeHasFact(pred, phi.Block(), cmpFact(vIs(resultOf(w, 0)), token.EQL, vNil(), "")), rule, fnName(follow)+": lastTXID = newTXID only after WriteTXIDFile succeeded", c.pos(lastInstr(pred)), "edge carries WriteTXIDFile err == nil", "the follower's position advances without a durable sidecar (or after a failed apply): a later poll would skip files")
						default:
							// nested phi merging the two above
							leaves, _ := phiLeaves(ev)
							okL := true
							for _, l := range leaves {
								if l != newTXID && !(vParam("lastTXID")(l) && isParam(l)) {
									okL = false
								}
							}
							if containsValue(leaves, newTXID) {
								okL = okL && edgeHasFact(pred, phi.Block(), cmpFact(vIs(resultOf(w, 0)), token.EQL, vNil(), ""))
							}
							c.check(okL, rule, fnName(follow)+": lastTXID = newTXID only after WriteTXIDFile succeeded", c.pos(lastInstr(pred)), "edge carries WriteTXIDFile err == nil", "the follower's position can advance on an edge that does not prove the sidecar was written")
						}
					}
				}
			}
		}
		// R6 follow returns only on ctx-done or sidecar failure
		const rule6 = "R6-follow-exits"
		cut := ctxDoneEdges(follow)
		for _, w := range ws {
			cut = append(cut, factEdges(follow, cmpFact(vIs(resultOf(w, 0)), token.NEQ, vNil(), ""))...)
		}
		// setup failures before the loop (open, header read) are legitimate error exits
		// (any error-returning call made before the poll loop is entered, i.e. outside every loop)
		followLoops := naturalLoops(follow)
		for _, call := range calls(follow) {
			if _, isCall := call.(*ssa.Call); !isCall || innermostLoopOf(followLoops, call.Block()) != nil {
				continue
			}
			idx := errResultIndex(call.Common().Signature())
			if idx < 0 {
				continue
			}
			if e := resultOf(call, idx); e != nil {
				cut = append(cut, factEdges(follow, cmpFact(vIs(e), token.NEQ, vNil(), ""))...)
			}
		}
		r := reachable(follow, nil, cut)
		for _, ret := range returns(follow) {
			c.check(!r[ret.Block()], rule6, fnName(follow)+": returns only on context cancellation, a setup failure or a sidecar failure", c.pos(ret), "unreachable after removing those edges", "follow mode can end for another reason (e.g. a transient apply error)", witnessPath(c.P, follow, ret.Block(), cut)...)
		}
	}

	c16Contiguous(c)

	errflowCone(c, c16Config())

	// R2b applyLTXFile ordering
	if fn := c.fn("R2-apply-durability", "(*ls.Replica).applyLTXFile"); fn != nil {
		const rule = "R2-apply-durability"
		var syncs, truncs, locks, writes []ssa.CallInstruction
		var decClose ssa.CallInstruction
		for _, call := range calls(fn) {
			if _, isCall := call.(*ssa.Call); !isCall {
				continue
			}
			switch calleeName(call) {
			case "(*os.File).Sync":
				syncs = append(syncs, call)
			case "(*os.File).Truncate":
				truncs = append(truncs, call)
			case "ls/internal.LockFileExclusive":
				locks = append(locks, call)
			case "(*os.File).WriteAt":
				writes = append(writes, call)
			case "(*ltx.Decoder).Close":
				decClose = call
			}
		}
		c.floor(rule, len(syncs), 2, "f.Sync calls in applyLTXFile")
		c.floor(rule, len(locks), 1, "exclusive lock")
		for _, t := range truncs {
			ok := false
			for _, s := range syncs {
				if dominates(s, t) {
					ok = true
					c.requireGuard(rule, fn, Site{t, "f.Truncate"}, cmpFact(vIs(resultOf(s, 0)), token.EQL, vNil(), "f.Sync err == nil"))
				}
			}
			c.check(ok, rule, fnName(fn)+": pages are synced before the file is truncated", c.pos(t), "a Sync dominates Truncate", "truncate can hit the disk before the page writes")
			// new size = commit * pageSize
			c.check(vBinOp(token.MUL, vFieldLoad("Header.Commit", nil), vParam("pageSize"), true)(t.Common().Args[1]), rule, fnName(fn)+": truncate to Commit * pageSize", c.pos(t), "provenance matches", "wrong size")
		}
		applyResizeRule(c, rule)
		for _, w := range writes {
			for _, l := range locks {
				c.check(dominates(l, w), rule, fnName(fn)+": pages are written under the exclusive lock", c.pos(w), "lock dominates write", "a page write can happen without the exclusive lock")
				c.requireGuard(rule, fn, Site{w, "f.WriteAt"}, cmpFact(vIs(resultOf(l, 0)), token.EQL, vNil(), "LockFileExclusive err == nil"))
			}
			off := w.Common().Args[2]
			c.check(vBinOp(token.MUL, vBinOp(token.SUB, vFieldLoad("PageHeader.Pgno", nil), vConstInt(1), false), vParam("pageSize"), true)(off), rule, fnName(fn)+": page written at (pgno-1)*pageSize", c.pos(w), "provenance matches", "page written at the wrong offset")
		}
		// unlock is deferred right after the lock
		nDef := 0
		for _, b := range fn.Blocks {
			for _, in := range b.Instrs {
				if d, ok := in.(*ssa.Defer); ok && calleeName(d) == "ls/internal.UnlockFile" {
					nDef++
					for _, l := range locks {
						c.check(dominates(l, d), rule, fnName(fn)+": unlock deferred after the lock is taken", c.pos(d), "ordered", "unlock registered before lock")
					}
				}
			}
		}
		c.floor(rule, nDef, 1, "deferred UnlockFile")
		if decClose != nil {
			for _, ret := range successReturns(fn) {
				c.requireGuard(rule, fn, Site{ret, "success return"}, cmpFact(vIs(resultOf(decClose, 0)), token.EQL, vNil(), "dec.Close() err == nil (file checksum verified)"))
			}
			// final sync after the checksum verification: the success return returns a Sync's result
			okFinal := false
			for _, ret := range successReturns(fn) {
				for _, s := range syncs {
					if vIs(resultOf(s, 0))(errOperand(ret)) && dominates(decClose, s) {
						okFinal = true
					}
					// `if err := f.Sync(); err != nil { return err }; return nil`
					if g, k := guardedBy(ret, cmpFact(vIs(resultOf(s, 0)), token.EQL, vNil(), "")); k > 0 && g && dominates(decClose, s) {
						okFinal = true
					}
				}
			}
			c.check(okFinal, rule, fnName(fn)+": success = result of a final f.Sync issued after the checksum check", c.P.Pos(fn.Pos()), "return f.Sync()", "the applied pages are not synced before success is reported")
		} else {
			c.fail(rule, fnName(fn)+": dec.Close() present", c.P.Pos(fn.Pos()), "the LTX file's checksum is never verified")
		}
	}

	// R5 sidecar publication: C11 engine on WriteTXIDFile only
	{
		n := 0
		for _, rs := range renameSites(c.P) {
			if fnName(rs.Fn) == "ls.WriteTXIDFile" {
				n++
			}
		}
		c.floor("R5-sidecar-publication", n, 1, "rename in WriteTXIDFile")
		sub := &Ctx{P: c.P, Prop: c.Prop, Tier: c.Tier}
		fsPublicationRules(sub, true, true)
		for _, o := range sub.Obls {
			if containsStr(o.Construct, "ls.WriteTXIDFile") {
				o.Rule = "R5-sidecar-publication/" + o.Rule
				c.Obls = append(c.Obls, o)
			}
		}
	}

	c16Resume(c)
}

func containsStr(s, sub string) bool {
	for i := 0; i+len(sub) <= len(s); i++ {
		if s[i:i+len(sub)] == sub {
			return true
		}
	}
	return false
}

func containsValue(vs []ssa.Value, w ssa.Value) bool {
	for _, v := range vs {
		if v == w {
			return true
		}
	}
	return false
}

func isParam(v ssa.Value) bool { _, ok := v.(*ssa.Parameter); return ok }

func allStores(fn *ssa.Function) []*ssa.Store {
	var out []*ssa.Store
	for _, b := range fn.Blocks {
		for _, in := range b.Instrs {
			if st, ok := in.(*ssa.Store); ok {
				out = append(out, st)
			}
		}
	}
	return out
}

// isCurrentTXID: v is a load of the local variable that is assigned
// info.MaxTXID after an apply (the follower's current TXID).
func isCurrentTXID(v ssa.Value, ap ssa.CallInstruction) bool {
	item := vResult(isItem, 0)
	maxOf := vFieldLoad("FileInfo.MaxTXID", item)
	// the variable as a memory cell (captured by a closure or address-taken)
	if u, ok := v.(*ssa.UnOp); ok && u.Op == token.MUL {
		if cell, ok := u.X.(*ssa.Alloc); ok {
			for _, s := range cellStores(cell) {
				if maxOf(s) {
					return true
				}
			}
		}
		return false
	}
	// the variable in SSA form: v is one of its phis, or a value assigned to it
	// (an incoming edge of such a phi)
	fn := ap.Parent()
	for _, phi := range txidVarPhis(fn, maxOf) {
		if v == phi {
			return true
		}
		for _, e := range phi.Edges {
			if e == v {
				return true
			}
		}
	}
	return false
}

// txidVarPhis: the phis of the SSA variable that receives info.MaxTXID after an
// apply (all phis connected to one with such an edge).
func txidVarPhis(fn *ssa.Function, maxOf VM) []*ssa.Phi {
	var all []*ssa.Phi
	for _, b := range fn.Blocks {
		for _, in := range b.Instrs {
			if phi, ok := in.(*ssa.Phi); ok {
				all = append(all, phi)
			}
		}
	}
	in := map[*ssa.Phi]bool{}
	for _, phi := range all {
		for _, e := range phi.Edges {
			if _, isPhi := e.(*ssa.Phi); !isPhi && maxOf(e) {
				in[phi] = true
			}
		}
	}
	for changed := true; changed; {
		changed = false
		for _, phi := range all {
			if in[phi] {
				for _, e := range phi.Edges {
					if q, ok := e.(*ssa.Phi); ok && !in[q] {
						in[q], changed = true, true
					}
				}
				continue
			}
			for _, e := range phi.Edges {
				if q, ok := e.(*ssa.Phi); ok && in[q] {
					in[phi], changed = true, true
				}
			}
		}
	}
	var out []*ssa.Phi
	for _, phi := range all {
		if in[phi] {
			out = append(out, phi)
		}
	}
	return out
}

// c16Resume: writer/reader agreement on the resume bound (F4).
func c16Resume(c *Ctx) {
	const rule = "R7-resume-bound-agreement"
	fn := c.fn(rule, "(*ls.Replica).Restore")
	if fn == nil {
		return
	}
	txid := vResult(nameIs("ls.ReadTXIDFile"), 0)
	// every "saved TXID is too new" rejection: an edge with fact txid > X leading only to error returns
	n := 0
	for _, e := range factEdges(fn, cmpFact(txid, token.GTR, vAny(), "")) {
		ifi := lastInstr(e.From).(*ssa.If)
		f := edgeFact(ifi, e.Succ)
		bound := f.R
		if txid(f.R) {
			bound = f.L
		}
		if isConst(bound) {
			continue
		}
		// does the edge lead only to error returns?
		rr := reachable(fn, e.From.Succs[e.Succ], nil)
		onlyErr := true
		for _, ret := range successReturns(fn) {
			if rr[ret.Block()] {
				onlyErr = false
			}
		}
		for _, call := range callsTo(fn, nameIs("(*ls.Replica).follow")) {
			if rr[call.Block()] {
				onlyErr = false
			}
		}
		if !onlyErr {
			continue
		}
		n++
		// levels feeding the bound
		levels := map[int64]bool{}
		// addLevels records the level(s) a listing argument denotes: a constant, or
		// the range of a counted loop variable (`for level := a; level < b; level++`)
		addLevels := func(lv ssa.Value) {
			if k, ok := constInt(lv); ok {
				levels[k] = true
				return
			}
			for _, l := range countedLoops(fn) {
				if ssa.Value(l.Phi) != lv || l.Cond == nil {
					continue
				}
				init, okI := constInt(l.Init)
				bo, okB := l.Cond.Cond.(*ssa.BinOp)
				if !okI || !okB || bo.X != ssa.Value(l.Phi) {
					continue
				}
				lim, okL := constInt(bo.Y)
				if !okL {
					continue
				}
				switch bo.Op {
				case token.LSS:
					lim--
				case token.LEQ:
				default:
					continue
				}
				for k := init; k <= lim && k < 64; k++ {
					levels[k] = true
				}
				return
			}
			levels[-1] = true // a range this rule cannot bound
		}
		var walk func(v ssa.Value, d int)
		seen := map[ssa.Value]bool{}
		walk = func(v ssa.Value, d int) {
			if v == nil || seen[v] || d > 12 {
				return
			}
			seen[v] = true
			for _, o := range origins(v) {
				switch x := o.(type) {
				case *ssa.UnOp:
					if fa, ok := x.X.(*ssa.FieldAddr); ok {
						walk(fa.X, d+1)
					}
				case *ssa.Field:
					walk(x.X, d+1)
				case *ssa.Alloc:
					for _, sv := range cellStores(x) {
						walk(sv, d+1)
					}
				case *ssa.Call:
					nm := calleeName(x)
					if isItem(nm) {
						walk(x.Call.Value, d+1)
					}
					if nm == "(*ls.Replica).MaxLTXFileInfo" {
						addLevels(x.Call.Args[2])
					}
				case *ssa.Extract:
					if call, ok := x.Tuple.(*ssa.Call); ok {
						if isLTXFiles(calleeName(call)) {
							addLevels(namedArg(call, "level"))
						}
						if calleeName(call) == "(*ls.Replica).MaxLTXFileInfo" {
							addLevels(call.Call.Args[2])
						}
					}
				case *ssa.Phi:
				}
			}
		}
		walk(bound, 0)
		// the sidecar is advanced by level-0 files and by gap-filling levels 1..8
		covers := levels[-1] || (levels[0] && levels[1])
		c.check(covers, rule, fnName(fn)+": an upper bound enforced on the saved TXID covers the levels that can advance the sidecar (0 and 1..8)", c.pos(ifi),
			"bound derives from a listing of all levels", "resume rejects a saved TXID that is larger than a bound computed from the snapshot level only: a follower that applied level-0 files beyond the latest snapshot cannot resume after a restart")
	}
	if n == 0 {
		c.ok(rule, fnName(fn)+": no upper bound is enforced on the saved TXID", c.P.Pos(fn.Pos()), "nothing to agree on")
	}
	// lower bound: history pruned
	es := factEdges(fn, cmpFact(vFieldLoad("FileInfo.MinTXID", nil), token.GTR, txid, ""))
	c.floor(rule, len(es), 1, "pruned-history check (snapshot.MinTXID > txid)")
	// resume requires a sidecar when the database exists
	for _, call := range callsTo(fn, nameIs("(*ls.Replica).follow")) {
		if vResult(nameIs("ls.ReadTXIDFile"), 0)(call.Common().Args[3]) {
			c.requireGuard(rule, fn, Site{call, "follow(resume)"}, cmpFact(txid, token.NEQ, vConstInt(0), "saved txid != 0"))
			c.requireGuard(rule, fn, Site{call, "follow(resume)"}, cmpFact(vResult(nameIs("ls.ReadTXIDFile"), 1), token.EQL, vNil(), "ReadTXIDFile err == nil"))
		}
	}
}

// c16Contiguous (R4): files are applied to a followed database only when they are
// contiguous with and extend its current TXID (shared with C02: the state labelled
// with a TXID is never a mixture).
func c16Contiguous(c *Ctx) {
	// R4 monotone, contiguous application
	for _, name := range []string{"(*ls.Replica).applyNewLTXFiles", "(*ls.Replica).fillFollowGap"} {
		const rule = "R4-contiguous-monotone-apply"
		fn := c.fn(rule, name)
		if fn == nil {
			continue
		}
		item := vResult(isItem, 0)
		// currentTXID lives in a captured variable
		aps := callsTo(fn, nameIs("(*ls.Replica).applyLTXFile"))
		c.floor(rule, len(aps), 1, "applyLTXFile call in "+name)
		for _, ap := range aps {
			info := namedArg(ap, "info")
			c.check(item(info), rule, name+": applies the listed file", c.pos(ap), "iterator item", "applied file is not the listed one")
			c.requireGuard(rule, fn, Site{ap, "applyLTXFile(info)"}, cmpFact(vFieldLoad("FileInfo.MinTXID", item), token.LEQ, vPlusOne(vAny()), "info.MinTXID <= currentTXID+1"))
			c.requireGuard(rule, fn, Site{ap, "applyLTXFile(info)"}, cmpFact(vFieldLoad("FileInfo.MaxTXID", item), token.GTR, vAny(), "info.MaxTXID > currentTXID"))
			// the bound compared against is the current TXID variable (not another value such as the gap end)
			for _, e := range factEdges(fn, cmpFact(vFieldLoad("FileInfo.MinTXID", item), token.LEQ, vPlusOne(vAny()), "")) {
				ifi := lastInstr(e.From).(*ssa.If)
				f := edgeFact(ifi, e.Succ)
				other := f.R
				if vFieldLoad("FileInfo.MinTXID", item)(f.R) {
					other = f.L
				}
				okC := false
				if b, isB := other.(*ssa.BinOp); isB && b.Op == token.ADD {
					okC = isCurrentTXID(b.X, ap) || isCurrentTXID(b.Y, ap)
				}
				c.check(okC, rule, name+": contiguity is tested against the follower's current TXID", c.pos(ifi), "currentTXID + 1", "the contiguity test compares against a value other than the current TXID (files that do not start right after it could be applied, skipping transactions)")
			}
			// currentTXID = info.MaxTXID only on the nil edge of this apply
			n := 0
			for _, st := range allStores(fn) {
				if !vFieldLoad("FileInfo.MaxTXID", item)(st.Val) {
					continue
				}
				if _, isAlloc := st.Addr.(*ssa.Alloc); !isAlloc {
					continue
				}
				if st.Block().Parent() != fn {
					continue
				}
				// copying the variable into another cell (a result spilled because of a defer)
				// is not the assignment of info.MaxTXID
				if u, isU := st.Val.(*ssa.UnOp); isU && u.Op == token.MUL && cellOf(u.X) != nil && cellOf(u.X) != ssa.Value(st.Addr.(*ssa.Alloc)) {
					continue
				}
				if !reachable(fn, ap.Block(), nil)[st.Block()] && st.Block() != ap.Block() {
					// store before the apply (in program order) — still must be guarded
				}
				n++
				c.requireGuard(rule, fn, Site{st, "currentTXID = info.MaxTXID"}, cmpFact(vIs(resultOf(ap, 0)), token.EQL, vNil(), "applyLTXFile err == nil"))
			}
			// the same assignment when the variable lives in SSA form: a phi edge
			for _, phi := range txidVarPhis(fn, vFieldLoad("FileInfo.MaxTXID", item)) {
				for i, e := range phi.Edges {
					if _, isPhi := e.(*ssa.Phi); isPhi || !vFieldLoad("FileInfo.MaxTXID", item)(e) {
						continue
					}
					// a read of the variable kept in a memory cell is not an assignment to it
					// (the cell's stores are the sites, above)
					if u, isU := e.(*ssa.UnOp); isU && u.Op == token.MUL && cellOf(u.X) != nil {
						continue
					}
					n++
					c.requireGuard(rule, fn, Site{lastInstr(phi.Block().Preds[i]), "currentTXID = info.MaxTXID"}, cmpFact(vIs(resultOf(ap, 0)), token.EQL, vNil(), "applyLTXFile err == nil"))
				}
			}
			c.floor(rule, n, 1, "currentTXID advance in "+name)
		}
		// listings
		for _, l := range callsTo(fn, isLTXFiles) {
			if name == "(*ls.Replica).applyNewLTXFiles" {
				c.check(vConstInt(0)(namedArg(l, "level")) && vPlusOne(vAny())(namedArg(l, "seek")), rule, name+": polls level 0 from currentTXID+1", c.pos(l), "LTXFiles(0, currentTXID+1)", "poll does not start right after the applied TXID")
			}
		}
	}

}

// applyResizeRule: applyLTXFile always resizes the followed file to the committed size
// (the truncate also EXTENDS it when the last committed page is not carried by the LTX
// file, i.e. the lock page): with Commit > 0 no success return bypasses Truncate.
func applyResizeRule(c *Ctx, rule string) {
	fn := c.fn(rule, "(*ls.Replica).applyLTXFile")
	if fn == nil {
		return
	}
	truncs := callsTo(fn, nameIs("(*os.File).Truncate"))
	c.floor(rule, len(truncs), 1, "f.Truncate in applyLTXFile")
	avoid := map[*ssa.BasicBlock]bool{}
	for _, t := range truncs {
		if _, isCall := t.(*ssa.Call); isCall {
			avoid[t.Block()] = true
		}
	}
	noCommit := factEdges(fn, cmpFact(vFieldLoad("Header.Commit", nil), token.LEQ, vConstInt(0), "hdr.Commit == 0"))
	r := reachableAvoiding(fn, nil, noCommit, avoid)
	bad := len(noCommit) == 0
	for _, ret := range successReturns(fn) {
		if r[ret.Block()] && !avoid[ret.Block()] {
			bad = true
		}
	}
	c.check(!bad, rule, fnName(fn)+": with Commit > 0 every success return follows f.Truncate(Commit*pageSize)", c.P.Pos(fn.Pos()), "no success return bypasses the resize unless Commit == 0",
		"the resize is skipped on some path: when the committed range ends at a page the file does not carry (the lock page) the follower stays one page short of the committed size")
}
