package main

// Path-sensitive refinement of edge-cut reachability.
//
// The plain query (reachable with a static set of cut edges) is insensitive to
// the correlation between two tests of the same immutable boolean SSA value,
// and to which operand a boolean phi selected on the path taken.  Both occur
// whenever a condition is named (`hasReader := a >= b`) and then tested in a
// switch, or when `A && B` is followed by a second test of A.  psReachable
// explores (block, knowledge) states: the truth of tracked boolean values
// learned at the branches already taken, and the operand each boolean phi
// selected.  Knowledge about a value is dropped whenever its defining block is
// entered again, so a loop cannot carry a stale instance.  Infeasible edges
// are not followed; an edge is also cut when the path-resolved condition
// entails one of the fact patterns.  Pruning only removes infeasible paths, so
// "unreachable" remains a sound verdict.

import (
	"fmt"
	"go/token"
	"sort"
	"strings"

	"golang.org/x/tools/go/ssa"
)

type psEnv struct {
	truth map[ssa.Value]bool     // known truth of boolean values
	sel   map[*ssa.Phi]ssa.Value // operand selected by a boolean phi on this path
}

func (e psEnv) clone() psEnv {
	n := psEnv{truth: map[ssa.Value]bool{}, sel: map[*ssa.Phi]ssa.Value{}}
	for k, v := range e.truth {
		n.truth[k] = v
	}
	for k, v := range e.sel {
		n.sel[k] = v
	}
	return n
}

func (e psEnv) key() string {
	var parts []string
	for k, v := range e.truth {
		parts = append(parts, fmt.Sprintf("%p=%v", k, v))
	}
	for k, v := range e.sel {
		parts = append(parts, fmt.Sprintf("%p>%p", k, v))
	}
	sort.Strings(parts)
	return strings.Join(parts, ",")
}

func isBoolValue(v ssa.Value) bool {
	return v != nil && v.Type() != nil && v.Type().Underlying().String() == "bool"
}

// psResolve strips negations and follows phi selections: the value whose truth
// decides v on this path, with the polarity (neg = an odd number of negations).
func (e psEnv) psResolve(v ssa.Value) (ssa.Value, bool) {
	neg := false
	for i := 0; i < 16; i++ {
		if u, ok := v.(*ssa.UnOp); ok && u.Op == token.NOT {
			v, neg = u.X, !neg
			continue
		}
		if phi, ok := v.(*ssa.Phi); ok {
			if s, ok := e.sel[phi]; ok {
				v = s
				continue
			}
		}
		break
	}
	return v, neg
}

// psReachable reports whether target is reachable from the entry of fn when
// statically cut edges, infeasible edges and edges whose path-resolved
// condition entails one of alts are not followed.  decided is false when the
// state budget was exhausted (the caller keeps the path-insensitive verdict).
func psReachable(fn *ssa.Function, target *ssa.BasicBlock, cut []Edge, alts []FP) (reach bool, decided bool, nDyn int) {
	if len(fn.Blocks) == 0 {
		return false, true, 0
	}
	isCut := map[Edge]bool{}
	for _, c := range cut {
		isCut[c] = true
	}
	defBlock := func(v ssa.Value) *ssa.BasicBlock {
		if in, ok := v.(ssa.Instruction); ok {
			return in.Block()
		}
		return nil
	}
	anyHolds := func(f Fact) bool {
		for _, p := range alts {
			if p.holds(f) {
				return true
			}
		}
		return false
	}
	// only values whose truth can matter again are tracked: conditions tested by
	// more than one If, boolean phis and their operands
	stripNot := func(v ssa.Value) ssa.Value {
		for {
			u, ok := v.(*ssa.UnOp)
			if !ok || u.Op != token.NOT {
				return v
			}
			v = u.X
		}
	}
	tested := map[ssa.Value]int{}
	tracked := map[ssa.Value]bool{}
	for _, b := range fn.Blocks {
		if ifi, ok := lastInstr(b).(*ssa.If); ok {
			tested[stripNot(ifi.Cond)]++
		}
		for _, in := range b.Instrs {
			phi, ok := in.(*ssa.Phi)
			if !ok {
				break
			}
			if isBoolValue(phi) {
				tracked[phi] = true
				for _, e := range phi.Edges {
					tracked[stripNot(e)] = true
				}
			}
		}
	}
	for v, n := range tested {
		if n > 1 {
			tracked[v] = true
		}
	}
	type state struct {
		b   *ssa.BasicBlock
		env psEnv
	}
	enter := func(from, to *ssa.BasicBlock, env psEnv) psEnv {
		n := env.clone()
		// values defined in `to` get a new dynamic instance
		for k := range n.truth {
			if defBlock(k) == to {
				delete(n.truth, k)
			}
		}
		for k := range n.sel {
			if k.Block() == to {
				delete(n.sel, k)
			}
		}
		pi := -1
		for i, p := range to.Preds {
			if p == from {
				pi = i
			}
		}
		if pi >= 0 {
			for _, in := range to.Instrs {
				phi, ok := in.(*ssa.Phi)
				if !ok {
					break
				}
				if !isBoolValue(phi) || pi >= len(phi.Edges) {
					continue
				}
				op := phi.Edges[pi]
				if k, isK := op.(*ssa.Const); isK && k.Value != nil {
					n.truth[phi] = k.Value.String() == "true"
					continue
				}
				// resolve the operand now (its own knowledge may be dropped later)
				rv, neg := env.psResolve(op)
				n.sel[phi] = op
				if t, ok := env.truth[rv]; ok {
					n.truth[phi] = t != neg
				}
			}
		}
		return n
	}
	start := state{fn.Blocks[0], psEnv{truth: map[ssa.Value]bool{}, sel: map[*ssa.Phi]ssa.Value{}}}
	seen := map[string]bool{}
	work := []state{start}
	budget := 50000
	for len(work) > 0 {
		st := work[len(work)-1]
		work = work[:len(work)-1]
		k := fmt.Sprintf("%d|%s", st.b.Index, st.env.key())
		if seen[k] {
			continue
		}
		seen[k] = true
		if budget--; budget < 0 {
			return true, false, nDyn
		}
		if st.b == target {
			return true, true, nDyn
		}
		ifi, isIf := lastInstr(st.b).(*ssa.If)
		for i, s := range st.b.Succs {
			if isCut[Edge{st.b, i}] {
				continue
			}
			env := st.env
			if isIf {
				want := i == 0
				rv, neg := st.env.psResolve(ifi.Cond)
				wantRv := want != neg
				if t, ok := st.env.truth[rv]; ok && t != wantRv {
					continue // infeasible on this path
				}
				if k, isK := rv.(*ssa.Const); isK && k.Value != nil && (k.Value.String() == "true") != wantRv {
					continue
				}
				// the fact this edge establishes for the resolved condition
				var f Fact
				if b, ok := rv.(*ssa.BinOp); ok && negOp(b.Op) != token.ILLEGAL {
					op := b.Op
					if !wantRv {
						op = negOp(op)
					}
					f = Fact{L: b.X, R: b.Y, Op: op}
				} else {
					f = Fact{L: rv, Truth: wantRv}
				}
				if len(alts) > 0 && (anyHolds(f) || valueEntails(rv, wantRv, alts, 0)) {
					nDyn++
					continue // guarded on this path
				}
				env = st.env.clone()
				if tracked[rv] {
					env.truth[rv] = wantRv
				}
				// also remember the tested value itself (modulo negation)
				cv := ifi.Cond
				cneg := false
				for {
					u, ok := cv.(*ssa.UnOp)
					if !ok || u.Op != token.NOT {
						break
					}
					cv, cneg = u.X, !cneg
				}
				if tracked[cv] {
					env.truth[cv] = want != cneg
				}
			}
			work = append(work, state{s, enter(st.b, s, env)})
		}
	}
	return false, true, nDyn
}

// guardedLocal: site is unreachable from the entry of its own function once the
// edges establishing one of alts are removed (statically, then path-sensitively).
func guardedLocal(site ssa.Instruction, depth int, alts ...FP) (bool, int) {
	fn := site.Parent()
	cut := factEdgesAlts(fn, depth, alts...)
	if len(cut) > 0 && !reachable(fn, nil, cut)[site.Block()] {
		return true, len(cut)
	}
	if reach, decided, nDyn := psReachable(fn, site.Block(), cut, alts); decided && !reach && len(cut)+nDyn > 0 {
		return true, len(cut) + nDyn
	}
	return false, len(cut)
}
