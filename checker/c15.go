package main

import (
	"go/token"
	"strings"

	"golang.org/x/tools/go/ssa"
)

func runC15(c *Ctx) {
	// R1 strict-before at every selection site + R3 useMetadata (shared engine, time rules only)
	runPlanRules(c, false, true)
	c15FileReplica(c)
	c15TargetBounds(c)
	c15Siblings(c)
	c15MetadataBeforeBody(c, "R5-sibling-writers-read-header-timestamp")
	c15HeaderTimestamp(c)
	c15MetadataCache(c)
	c18TimeTravelFreeze(c, "R9-time-travel-freezes-the-index")
	// the v0.3.x path applies the same "not after T" selection
	v3TimestampEligibility(c)
	// R4: T before the first backup fails: the plan must be non-empty (C08-R4 success condition)
	plan := c.fnOpt("ls.CalcRestorePlan")
	if plan != nil {
		const rule = "R4-empty-plan-fails"
		for _, r := range successReturns(plan) {
			c.requireAlts(rule, plan, Site{r, "success return"}, []FP{
				cmpFact(vLenOf(nil), token.NEQ, vConstInt(0), "len(infos) != 0"),
				cmpFact(vResult(nameIs("(ltx.FileInfoSlice).MaxTXID"), 0), token.GEQ, vParam("txID"), "plan already reaches txID"),
			})
		}
	}
}

// c15FileReplica: the file replica stores the LTX header timestamp as mtime and
// reports it back as CreatedAt.
func c15FileReplica(c *Ctx) {
	const rule = "R2-file-timestamp-roundtrip"
	w := c.fn(rule, "(*ls/file.ReplicaClient).WriteLTXFile")
	l := c.fn(rule, "(*ls/file.ReplicaClient).LTXFiles")
	if w != nil {
		// timestamp = time.UnixMilli(hdr.Timestamp) with hdr from ltx.PeekHeader
		hdrTS := vFieldLoad("Header.Timestamp", vResult(nameIs("ltx.PeekHeader"), 0))
		ts := func(v ssa.Value) bool {
			for _, o := range origins(v) {
				call, ok := o.(*ssa.Call)
				if !ok {
					continue
				}
				switch calleeName(call) {
				case "(time.Time).UTC":
					if vCall("time.UnixMilli", hdrTS)(call.Call.Args[0]) {
						return true
					}
				case "time.UnixMilli":
					if hdrTS(call.Call.Args[0]) {
						return true
					}
				}
			}
			return false
		}
		cht := callsTo(w, nameIs("os.Chtimes"))
		c.floor(rule, len(cht), 1, "os.Chtimes call in file WriteLTXFile")
		rn := callsTo(w, nameIs("os.Rename"))
		for _, call := range cht {
			a := refArgs(call)
			ok := len(a) == 3 && ts(a[1]) && ts(a[2])
			c.check(ok, rule, fnName(w)+": os.Chtimes(filename, T, T) with T = time.UnixMilli(ltx header Timestamp)", c.pos(call), "provenance matches", "the file's mtime is not set from the LTX header timestamp")
			// same path as the rename destination
			for _, r := range rn {
				c.check(len(a) == 3 && vIs(refArgs(r)[1])(a[0]) || sameValue(a[0], refArgs(r)[1]), rule, fnName(w)+": Chtimes applies to the published file name", c.pos(call), "same value as the rename destination", "Chtimes is applied to a different path than the published file")
				c.check(dominates(r, call), rule, fnName(w)+": Chtimes follows the rename", c.pos(call), "dominated by the rename", "mtime is set before the file is published")
			}
			// every success return passes Chtimes nil edge
			for _, ret := range successReturns(w) {
				c.requireGuard(rule, w, Site{ret, "success return"}, cmpFact(vIs(resultOf(call, 0)), token.EQL, vNil(), "os.Chtimes err == nil"))
			}
		}
		// returned CreatedAt is the same timestamp
		n := 0
		for _, ret := range successReturns(w) {
			if len(ret.Results) == 0 {
				continue
			}
			v := retOperand(ret, 0)
			for _, o := range origins(v) {
				f := compositeFields(o)
				if f == nil {
					continue
				}
				if ca, ok := f["CreatedAt"]; ok {
					n++
					c.check(ts(ca), rule, fnName(w)+": returned FileInfo.CreatedAt = header timestamp", c.pos(ret), "provenance matches", "returned CreatedAt does not derive from the LTX header timestamp")
				}
			}
		}
		c.floor(rule, n, 1, "returned FileInfo with CreatedAt in file WriteLTXFile")
	}
	if l != nil {
		n := 0
		for _, b := range l.Blocks {
			for _, in := range b.Instrs {
				al, ok := in.(*ssa.Alloc)
				if !ok {
					continue
				}
				f := compositeFields(al)
				ca, ok := f["CreatedAt"]
				if !ok {
					continue
				}
				n++
				good := false
				for _, o := range origins(ca) {
					if call, ok := o.(*ssa.Call); ok {
						nm := calleeName(call)
						if nm == "(time.Time).UTC" && len(call.Call.Args) > 0 {
							for _, oo := range origins(call.Call.Args[0]) {
								if c2, ok := oo.(*ssa.Call); ok && strings.HasSuffix(calleeName(c2), ".ModTime") {
									good = true
								}
							}
						}
						if strings.HasSuffix(nm, ".ModTime") {
							good = true
						}
					}
				}
				c.check(good, rule, fnName(l)+": listed FileInfo.CreatedAt = file ModTime", c.pos(al), "provenance matches", "listing does not report the file's mtime as CreatedAt")
			}
		}
		c.floor(rule, n, 1, "FileInfo literals in file LTXFiles")
	}
}

func sameValue(a, b ssa.Value) bool {
	for _, x := range origins(a) {
		for _, y := range origins(b) {
			if x == y {
				return true
			}
		}
	}
	return false
}

// c15TargetBounds: CalcRestoreTarget rejects a timestamp outside the replicated bounds.
func c15TargetBounds(c *Ctx) {
	const rule = "R6-target-bounds"
	fn := c.fn(rule, "(*ls.Replica).CalcRestoreTarget")
	if fn == nil {
		return
	}
	ts := vFieldLoad("RestoreOptions.Timestamp", nil)
	for _, r := range successReturns(fn) {
		s := Site{r, "success return"}
		alts := []FP{isZeroTime(ts, "opt.Timestamp.IsZero()"), truthFact(vCall("(time.Time).Before", ts, nil), false, "!opt.Timestamp.Before(createdAt)")}
		c.requireAlts(rule, fn, s, alts)
		alts2 := []FP{isZeroTime(ts, "opt.Timestamp.IsZero()"), truthFact(vCall("(time.Time).After", ts, nil), false, "!opt.Timestamp.After(updatedAt)")}
		c.requireAlts(rule, fn, s, alts2)
	}
}

// c15Siblings: every WriteLTXFile implementation derives the reported
// CreatedAt / stored timestamp from the LTX header (PeekHeader or DecodeHeader).
func c15Siblings(c *Ctx) {
	const rule = "R5-sibling-writers-read-header-timestamp"
	n := 0
	for _, fn := range c.P.ProdFuncs() {
		if fn.Name() != "WriteLTXFile" || fn.Signature.Recv() == nil || fn.Parent() != nil {
			continue
		}
		n++
		found := false
		for _, f := range c.P.cone(fn) {
			for _, call := range calls(f) {
				switch calleeName(call) {
				case "ltx.PeekHeader", "(*ltx.Decoder).DecodeHeader":
					found = true
				}
			}
		}
		c.check(found, rule, fnName(fn)+" reads the LTX header (timestamp source)", c.P.Pos(fn.Pos()), "reaches ltx.PeekHeader/DecodeHeader", "this backend does not read the LTX header, so it cannot preserve the replication timestamp")
	}
	c.floor(rule, n, 6, "WriteLTXFile implementations in production packages")
}

// c15HeaderTimestamp: the replication time recorded in an LTX header is taken
// when the file is produced (after its position is fixed), never earlier.
func c15HeaderTimestamp(c *Ctx) {
	const rule = "R7-header-timestamp-fresh"
	n := 0
	for _, name := range []string{"(*ls.DB).sync", "(*ls.DB).snapshotReader"} {
		fn := c.fn(rule, name)
		if fn == nil {
			continue
		}
		for _, f := range withClosures(fn) {
			for _, call := range callsTo(f, nameIs("(*ltx.Encoder).EncodeHeader")) {
				n++
				flds := compositeFields(refArgs(call)[1])
				ts := flds["Timestamp"]
				ok := false
				for _, o := range origins(ts) {
					um, isC := o.(*ssa.Call)
					if !isC || calleeName(um) != "(time.Time).UnixMilli" {
						continue
					}
					for _, oo := range origins(um.Call.Args[0]) {
						if now, isN := oo.(*ssa.Call); isN && calleeName(now) == "time.Now" && now.Parent() == f {
							ok = true
						}
					}
				}
				c.check(ok, rule, fnName(f)+": header Timestamp = time.Now() taken while the file is produced", c.pos(call), "time.Now().UnixMilli() in the producing function", "the recorded replication time is captured elsewhere (possibly before the position was fixed): a timestamp restore could return a transaction replicated after T")
			}
		}
	}
	c.floor(rule, n, 2, "LTX headers written by litestream")
}

// c15MetadataBeforeBody: a backend that stores the replication timestamp as
// object metadata on a streaming writer must set it before the first byte of
// the body is written (the GCS writer sends its attributes with the first
// chunk; later assignments are silently ignored, the listing then falls back
// to the upload time and a compacted file no longer carries its newest
// input's timestamp).
func c15MetadataBeforeBody(c *Ctx, rule string) {
	n := 0
	for _, fn := range c.P.ProdFuncs() {
		if fn.Name() != "WriteLTXFile" || fn.Signature.Recv() == nil || fn.Parent() != nil {
			continue
		}
		for _, b := range fn.Blocks {
			for _, in := range b.Instrs {
				st, ok := in.(*ssa.Store)
				if !ok {
					continue
				}
				fa, ok := st.Addr.(*ssa.FieldAddr)
				if !ok || !strings.HasSuffix(fieldAddrName(fa), ".Metadata") {
					continue
				}
				// root object of the field chain
				root := fa.X
				for {
					if f2, ok := root.(*ssa.FieldAddr); ok {
						root = f2.X
						continue
					}
					break
				}
				// body writes through the same object
				for _, call := range calls(fn) {
					if _, isCall := call.(*ssa.Call); !isCall {
						continue
					}
					isBody := false
					switch calleeName(call) {
					case "io.Copy", "io.CopyN", "io.CopyBuffer":
						for _, o := range origins(call.Common().Args[0]) {
							if o == root || sameValue(o, root) {
								isBody = true
							}
						}
					default:
						if rv := recvOf(call); rv != nil && (rv == root || sameValue(rv, root)) && (methodName(call) == "Write" || methodName(call) == "ReadFrom") {
							isBody = true
						}
					}
					if !isBody {
						continue
					}
					n++
					c.check(dominates(st, call), rule, fnName(fn)+": object metadata (replication timestamp) is set before the body is written", c.pos(st), "assignment dominates the first body write",
						"the metadata is assigned after data was written to the streaming writer: it is not stored, listings report the upload time instead of the LTX header timestamp")
				}
			}
		}
	}
	c.floor(rule, n, 1, "streaming writers carrying timestamp metadata")
}

// c15MetadataCache: the object stores' batch metadata fetch caches, per key, the replication
// timestamp parsed from the object's metadata.  Only successfully parsed timestamps enter
// the cache: a zero time cached for a key whose HEAD failed or carries no metadata is
// "before every T" and lets a file replicated after T into a timestamp restore (a key
// without a cache entry falls back to LastModified instead).
func c15MetadataCache(c *Ctx) {
	const rule = "R8-metadata-cache-holds-parsed-times"
	var good func(v ssa.Value, site ssa.Instruction, d int) bool
	good = func(v ssa.Value, site ssa.Instruction, d int) bool {
		if v == nil || d > 4 {
			return false
		}
		os := origins(v)
		if len(os) == 0 {
			return false
		}
		for _, o := range os {
			ok := false
			if ex, isE := o.(*ssa.Extract); isE {
				switch t := ex.Tuple.(type) {
				case *ssa.Call:
					// parsed, err := time.Parse(...): used under err == nil
					if calleeName(t) == "time.Parse" && ex.Index == 0 {
						if g, k := guardedBy(site, cmpFact(vIs(resultOf(t, 1)), token.EQL, vNil(), "")); k > 0 && g {
							ok = true
						}
					}
				case *ssa.Next:
					// the value of a range over a map all of whose entries are good
					if rg, isR := t.Iter.(*ssa.Range); isR && ex.Index == 2 {
						for _, m := range origins(rg.X) {
							mm, isM := m.(*ssa.MakeMap)
							if !isM || mm.Referrers() == nil {
								continue
							}
							all, n := true, 0
							var visit func(val ssa.Value)
							seen := map[ssa.Value]bool{}
							visit = func(val ssa.Value) {
								if seen[val] || val.Referrers() == nil {
									return
								}
								seen[val] = true
								for _, r := range *val.Referrers() {
									switch u := r.(type) {
									case *ssa.MapUpdate:
										if u.Map == val {
											n++
											if !good(u.Value, u, d+1) {
												all = false
											}
										}
									case *ssa.MakeClosure:
										// captured by the worker goroutines: follow the free variable
										if cl, isF := u.Fn.(*ssa.Function); isF {
											for i, b := range u.Bindings {
												if i < len(cl.FreeVars) {
													if b == val {
														visit(cl.FreeVars[i])
													} else if al, isA := b.(*ssa.Alloc); isA {
														for _, st := range cellStores(al) {
															if st == val {
																for _, fr := range *cl.FreeVars[i].Referrers() {
																	if ld, isL := fr.(*ssa.UnOp); isL {
																		visit(ld)
																	}
																}
															}
														}
													}
												}
											}
										}
									case *ssa.Store:
										// kept in a cell that closures capture
										if al, isA := u.Addr.(*ssa.Alloc); isA && u.Val == val && al.Referrers() != nil {
											for _, ar := range *al.Referrers() {
												if mc, isMC := ar.(*ssa.MakeClosure); isMC {
													if cl, isF := mc.Fn.(*ssa.Function); isF {
														for i, b := range mc.Bindings {
															if b == ssa.Value(al) && i < len(cl.FreeVars) && cl.FreeVars[i].Referrers() != nil {
																for _, fr := range *cl.FreeVars[i].Referrers() {
																	if ld, isL := fr.(*ssa.UnOp); isL {
																		visit(ld)
																	}
																}
															}
														}
													}
												}
												if ld, isL := ar.(*ssa.UnOp); isL {
													visit(ld)
												}
											}
										}
									}
								}
							}
							visit(mm)
							if all && n > 0 {
								ok = true
							}
						}
					}
				}
			}
			if !ok {
				return false
			}
		}
		return true
	}
	n := 0
	for _, fn := range c.P.ProdFuncs() {
		for _, b := range fn.Blocks {
			for _, in := range b.Instrs {
				mu, ok := in.(*ssa.MapUpdate)
				if !ok || !vFieldLoad("fileIterator.metadataCache", nil)(mu.Map) {
					continue
				}
				n++
				c.check(good(mu.Value, mu, 0), rule, fnName(fn)+": metadataCache entries are timestamps parsed from object metadata", c.pos(mu), "time.Parse result under err == nil (directly or through the per-batch result map)",
					"a timestamp that was not successfully parsed (the zero time for a failed or metadata-less HEAD) can be cached: CreatedAt is then before every requested time")
			}
		}
	}
	c.floor(rule, n, 1, "metadataCache updates in the object-store listings")
}
