package main

// Call graph (lazy): VTA seeded with CHA over the whole program, plus an
// in-module static graph used for cones.

import (
	"sort"

	"golang.org/x/tools/go/callgraph"
	"golang.org/x/tools/go/callgraph/cha"
	"golang.org/x/tools/go/callgraph/vta"
	"golang.org/x/tools/go/ssa"
)

type callGraph struct {
	g *callgraph.Graph
}

func (p *Prog) CallGraph() *callgraph.Graph {
	if p.cg == nil {
		g := vta.CallGraph(p.allFuncs, cha.CallGraph(p.SSA))
		p.cg = &callGraph{g: g}
	}
	return p.cg.g
}

// callees returns the possible production callees of a call site in fn.
func (p *Prog) calleesOf(site ssa.CallInstruction) []*ssa.Function {
	if f := site.Common().StaticCallee(); f != nil {
		return []*ssa.Function{f}
	}
	g := p.CallGraph()
	n := g.Nodes[site.Parent()]
	if n == nil {
		return nil
	}
	var out []*ssa.Function
	seen := map[*ssa.Function]bool{}
	for _, e := range n.Out {
		if e.Site == site && !seen[e.Callee.Func] {
			seen[e.Callee.Func] = true
			out = append(out, e.Callee.Func)
		}
	}
	sort.Slice(out, func(i, j int) bool { return out[i].String() < out[j].String() })
	return out
}

// cone returns the production functions reachable from roots (including
// closures created in them and the targets of go/defer), through static calls,
// resolved dynamic calls and closure creation.
func (p *Prog) cone(roots ...*ssa.Function) []*ssa.Function {
	seen := map[*ssa.Function]bool{}
	var order []*ssa.Function
	var visit func(f *ssa.Function)
	visit = func(f *ssa.Function) {
		if f == nil || seen[f] || f.Blocks == nil || !p.InP(f) {
			return
		}
		seen[f] = true
		order = append(order, f)
		for _, b := range f.Blocks {
			for _, in := range b.Instrs {
				switch x := in.(type) {
				case *ssa.MakeClosure:
					if fn, ok := x.Fn.(*ssa.Function); ok {
						visit(fn)
					}
				case ssa.CallInstruction:
					for _, cal := range p.calleesOf(x) {
						visit(cal)
					}
				}
			}
		}
	}
	for _, r := range roots {
		visit(r)
	}
	sort.Slice(order, func(i, j int) bool { return order[i].String() < order[j].String() })
	return order
}
