package main

// C10 — restore fails loudly rather than produce a wrong or partial database.
// C19 — legacy 0.3.x backups restore to the right state or fail.

import (
	"fmt"
	"go/token"
	"strings"

	"golang.org/x/tools/go/ssa"
)

func init() {
	register(&PropSpec{
		ID:  "C10",
		Run: runC10,
		Explanation: "Restore's loud-failure skeleton on every path: the output path is created only after os.Stat proved it absent; output is staged under .tmp and published by rename (C03/C11 rules restricted to the restore sites); " +
			"a failed integrity check with a live context removes the output path itself; a path-sensitive fail-stop walk covers every error-returning call in the cones of Replica.Restore / RestoreV3 (the compactor goroutine's error must reach the pipe); " +
			"verification sinks on the pinned ltx library (DecodeDatabaseTo succeeds only after Decoder.Close, Close compares the trailer checksum, ltx.Compactor closes every input decoder fail-stop); " +
			"the resumable reader's offset/retry/sticky-error discipline; the size sanity guard in front of every reader.",
		NotDecided:  "that a flipped byte always changes a checksum (CRC property); SQLite's integrity_check coverage",
		Assumptions: []string{"ltx v0.5.2 checksums (CRC64) detect the corruptions of interest"},
	})
	register(&PropSpec{
		ID:  "C19",
		Run: runC19,
		Explanation: "Legacy restore skeleton: every WAL segment append is cut by the index/offset contiguity facts (Index == expectedIndex for a new WAL file with expectedIndex starting at the snapshot's index and stepping by one; Offset == running offset otherwise); " +
			"snapshot choice and segment filter only admit elements not newer than T (and not older than the snapshot's index); format arbitration compares the eligible snapshots of both formats; the V3 branch is taken only without -txid and without follow; " +
			"fail-stop walk over the cone of RestoreV3; output staging/publication rules by reference to C10/C11. TimeBounds/TimeBoundsV3 fold createdAt/updatedAt as true running minimum/maximum (each new value is taken only under v.IsZero() or x.Before/After(v) against the same variable).",
		NotDecided:  "reconstruction correctness (SQLite applies the rebuilt WAL); quality of the arbitration heuristic beyond the compared operands",
		Assumptions: []string{"SQLite applies a reconstructed WAL via wal_checkpoint(TRUNCATE)"},
	})
}

func restoreConfig(roots ...string) *EFConfig {
	return &EFConfig{
		Rule:  "R4-errflow-restore-cone",
		Roots: roots,
		Pkgs:  corePkgs,
		Skip: map[string]string{"ls/internal.MkdirAll": "verbatim copy of os.MkdirAll",
			"(*ls.Replica).follow":           "follow mode retry loop (C16)",
			"(*ls.Replica).applyNewLTXFiles": "follow mode (C16)",
			"(*ls.Replica).applyLTXFile":     "follow mode (C16)",
			"(*ls.Replica).fillFollowGap":    "follow mode (C16)"},
		Exceptions: append([]EFException{
			{Fn: "ls.checkIntegrity", Callee: "os.Remove", DroppedOnly: true, Reason: "best-effort removal of SQLite's -shm/-wal side files after a successful check"},
			{Fn: "(*ls/internal.ResumableReader).Read", Callee: "iface:io.ReadCloser.Read", Reason: "transparent resume within the retry budget (rule R6-resumable-reader)"},
			{Fn: "(*ls/internal.ResumableReader).Read", Callee: "iface:ls/internal.LTXFileOpener.OpenLTXFile", Reason: "transparent resume within the retry budget"},
			{Fn: "(*ls/internal.ResumableReader).close", Callee: "iface:io.ReadCloser.Close", Reason: "closing a stream that is being discarded after a read failure (logged)"},
			{Fn: "(*ls/internal.ResumableReader).close", Callee: "iface:io.ReadCloser.Close", Reason: "closing a stream that is being discarded (logged)"},
			{Fn: "(*ls.Replica).Restore", Callee: "iface:ltx.FileIterator.Close", Reason: "closing the validation listing after its Err() was checked"},
			{Fn: "ls.ReadTXIDFile", Callee: "os.ReadFile", Tolerate: []string{"os.IsNotExist"}, Reason: "no sidecar = first run"},
			{Fn: "(*ls.Replica).Restore", Callee: "iface:io.Closer.Close", DroppedOnly: true, Reason: "closing the fully consumed source streams before entering follow mode: the restored file is already synced, renamed and checked"},
			{Fn: "(*ls.Replica).Restore", Callee: "(*ls/internal.ResumableReader).Close", DroppedOnly: true, Reason: "the same close through the concrete reader type (source streams are read-only; the restored file is already synced, renamed and checked)"},
			{Fn: "(*ls.Replica).Restore", Callee: "os.Stat", Reason: "the follow-mode resume probe: a failed stat falls through to the ordinary path, which stats the output again (rule R1 checks that second stat guards every creating call)"},
			{Fn: "*", Callee: "ls.ParseSnapshotFilenameV3", Reason: "legacy listings skip names that are not snapshot files"},
			{Fn: "*", Callee: "ls.ParseWALSegmentFilenameV3", Reason: "legacy listings skip names that are not WAL segment files"},
			{Fn: "ls.FindLTXFiles", Callee: "dynamic:func(*github.com/superfly/ltx.FileInfo) (bool, error)", Tolerate: []string{"errors.Is:ls.ErrStopIter"}, Reason: "ErrStopIter is the filter's way to end the iteration"},
			{Fn: "ls.ParseSnapshotFilenameV3", Callee: "strconv.ParseInt", DroppedOnly: true, Reason: "the regular expression admits exactly 8 hex digits, which always parse into an int64"},
			{Fn: "ls/internal.LockFileExclusive", Callee: "ls/internal.setFcntlLock", DroppedOnly: true, Reason: "only the unlock inside the failure branch of the second lock is unchecked; both lock acquisitions are fail-stop"},
		}, ackExceptions...),
	}
}

func runC10(c *Ctx) {
	c10OutputGuard(c, "(*ls.Replica).Restore")
	c10OutputGuard(c, "(*ls.Replica).RestoreV3")
	c10PublishLast(c, "(*ls.Replica).Restore")
	c10PublishLast(c, "(*ls.Replica).RestoreV3")
	v3SegmentContiguity(c)
	// R2 staging (restore sites of the C03/C11 engines)
	c10Staging(c)
	// R3 integrity failure removes the output
	for _, name := range []string{"(*ls.Replica).Restore", "(*ls.Replica).RestoreV3"} {
		c10IntegrityCleanup(c, name)
	}
	errflowCone(c, restoreConfig("(*ls.Replica).Restore", "(*ls.Replica).RestoreV3", "(*ls/internal.ResumableReader).Read", "(*ls/file.ReplicaClient).OpenLTXFile"))
	c10Sinks(c)
	c05Resumable(c)
	// a missing file inside the chain is reported, not silently skipped (planner gap check, shared with C08)
	runPlanRules(c, true, false)
	// R7 size sanity guard
	if fn := c.fnOpt("(*ls.Replica).Restore"); fn != nil {
		const rule = "R7-size-guard"
		n := 0
		for _, call := range callsTo(fn, nameIs("ls/internal.NewResumableReader")) {
			n++
			c.requireGuard(rule, fn, Site{call, "NewResumableReader(info...)"}, cmpFact(vFieldLoad("FileInfo.Size", nil), token.GEQ, vConstInt(100), "info.Size >= ltx.HeaderSize"))
			a := refArgs(call)
			ok := vFieldLoad("FileInfo.Level", nil)(a[2]) && vFieldLoad("FileInfo.MinTXID", nil)(a[3]) && vFieldLoad("FileInfo.MaxTXID", nil)(a[4]) && vFieldLoad("FileInfo.Size", nil)(a[5])
			c.check(ok, rule, fnName(fn)+": reader opened for the plan element's (level, min, max, size)", c.pos(call), "provenance matches", "reader does not correspond to the planned file")
		}
		c.floor(rule, n, 1, "NewResumableReader in Restore")
		// the plan is the one computed by CalcRestorePlan for (opt.TXID, opt.Timestamp)
		for _, call := range callsTo(fn, nameIs("ls.CalcRestorePlan")) {
			a := refArgs(call)
			c.check(vFieldLoad("RestoreOptions.TXID", nil)(a[2]) && vFieldLoad("RestoreOptions.Timestamp", nil)(a[3]), rule, fnName(fn)+": plan computed for (opt.TXID, opt.Timestamp)", c.pos(call), "provenance matches", "the plan is not computed for the requested target")
		}
	}
}

func c10OutputGuard(c *Ctx, name string) {
	const rule = "R1-never-overwrite-output"
	fn := c.fn(rule, name)
	if fn == nil {
		return
	}
	out := vFieldLoad("RestoreOptions.OutputPath", nil)
	var creators []ssa.CallInstruction
	for _, call := range calls(fn) {
		if _, isCall := call.(*ssa.Call); !isCall {
			continue
		}
		switch calleeName(call) {
		case "os.Create", "(*ls.Replica).downloadSnapshotV3", "ls/internal.MkdirAll", "os.Rename":
			creators = append(creators, call)
		}
	}
	c.floor(rule, len(creators), 2, "creating calls in "+name)
	stats := []ssa.CallInstruction{}
	for _, s := range callsTo(fn, nameIs("os.Stat")) {
		if out(s.Common().Args[0]) {
			stats = append(stats, s)
		}
	}
	c.floor(rule, len(stats), 1, "os.Stat(opt.OutputPath) in "+name)
	for _, cr := range creators {
		ok := false
		for _, s := range stats {
			e := vIs(resultOf(s, 1))
			g1, n1 := guardedBy(cr, cmpFact(e, token.NEQ, vNil(), ""))
			g2, n2 := guardedBy(cr, truthFact(vCall("os.IsNotExist", e), true, ""), truthFact(vCall("errors.Is", e, vGlobal("os.ErrNotExist")), true, ""))
			if n1 > 0 && g1 && n2 > 0 && g2 {
				ok = true
			}
		}
		c.check(ok, rule, name+": "+calleeName(cr)+" happens only after os.Stat(opt.OutputPath) reported not-exist", c.pos(cr), "guarded by err != nil and os.IsNotExist(err)", "the output path (or its staging file) can be created/replaced although the output path exists or could not be examined")
	}
}

func c10Staging(c *Ctx) {
	const rule = "R2-output-staging"
	n := 0
	for _, rs := range renameSites(c.P) {
		nm := fnName(rs.Fn)
		if rs.Delegated || (nm != "(*ls.Replica).Restore" && nm != "(*ls.Replica).RestoreV3" && nm != "ls.WriteTXIDFile") {
			continue
		}
		n++
		ok := false
		for _, o := range origins(rs.Src) {
			if b, isB := o.(*ssa.BinOp); isB && b.Op == token.ADD && vConstStr(".tmp")(b.Y) && exprEq(b.X, rs.Dst) {
				ok = true
			}
		}
		c.check(ok, rule, nm+": output is published by renaming dst+\".tmp\"", c.pos(rs.Call), "src = dst + .tmp", "restore does not stage its output under a temporary name")
		if nm != "ls.WriteTXIDFile" {
			c.check(vFieldLoad("RestoreOptions.OutputPath", nil)(rs.Dst), rule, nm+": rename destination is opt.OutputPath", c.pos(rs.Call), "opt.OutputPath", "restore publishes to a path other than the requested output")
		}
		// a deferred removal of the staging file exists
		found := false
		for _, b := range rs.Fn.Blocks {
			for _, in := range b.Instrs {
				if d, ok := in.(*ssa.Defer); ok {
					if calleeName(d) == "os.Remove" && exprEq(d.Call.Args[0], rs.Src) {
						found = true
					}
					if mc, ok := d.Call.Value.(*ssa.MakeClosure); ok {
						for _, rm := range callsTo(mc.Fn.(*ssa.Function), nameIs("os.Remove")) {
							if exprEq(rm.Common().Args[0], rs.Src) {
								found = true
							}
						}
					}
				}
			}
		}
		c.check(found, rule, nm+": staging file is removed on every exit (deferred os.Remove)", c.pos(rs.Call), "deferred removal present", "a failed restore leaves its staging file behind")
	}
	c.floor(rule, n, 3, "restore publication sites")
}

func c10IntegrityCleanup(c *Ctx, name string) {
	const rule = "R3-integrity-failure-removes-output"
	fn := c.fn(rule, name)
	if fn == nil {
		return
	}
	ks := callSitesV(fn, nameIs("ls.checkIntegrity"))
	c.floor(rule, len(ks), 1, "checkIntegrity call in "+name)
	top := fn
	for _, vs := range ks {
		k := vs.Call()
		// the check and its cleanup may live in an extracted helper: the branch structure is
		// examined where the call stands, the provenance along the call string
		fn := k.Parent()
		path := refArgs(k)[1]
		c.check(vFieldLoad("RestoreOptions.OutputPath", nil)(resolveThroughCtx(path, vs.Ctx)), rule, name+": integrity check runs on opt.OutputPath", c.pos(k), "provenance matches", "integrity check does not examine the published output")
		kerr := resultOf(k, 0)
		var rms []ssa.CallInstruction
		for _, rm := range callsTo(fn, nameIs("os.Remove")) {
			if _, isCall := rm.(*ssa.Call); !isCall {
				continue
			}
			if exprEq(rm.Common().Args[0], path) {
				if g, n := guardedBy(rm, cmpFact(vIs(kerr), token.NEQ, vNil(), "")); n > 0 && g {
					rms = append(rms, rm)
				}
			}
		}
		// or a helper that removes the path it is given
		for _, call := range calls(fn) {
			if _, isCall := call.(*ssa.Call); !isCall {
				continue
			}
			g := call.Common().StaticCallee()
			if g == nil || !c.P.InP(g) || g.Blocks == nil {
				continue
			}
			for i, a := range call.Common().Args {
				if !exprEq(a, path) || i >= len(g.Params) {
					continue
				}
				removes := false
				for _, rm := range callsTo(g, nameIs("os.Remove")) {
					if _, isCall := rm.(*ssa.Call); isCall && vIs(g.Params[i])(rm.Common().Args[0]) && isParamExactly(rm.Common().Args[0], g.Params[i]) {
						removes = true
					}
				}
				if removes {
					if gd, n := guardedBy(call, cmpFact(vIs(kerr), token.NEQ, vNil(), "")); n > 0 && gd {
						rms = append(rms, call)
					}
				}
			}
		}
		c.check(len(rms) >= 1, rule, name+": os.Remove(opt.OutputPath) exists on the integrity-failure branch", c.pos(k), "found", "a failed integrity check does not remove the output path")
		if len(rms) == 0 {
			continue
		}
		// every path from the failure edge with a live context to the return passes the removal
		avoid := map[*ssa.BasicBlock]bool{}
		for _, rm := range rms {
			avoid[rm.Block()] = true
		}
		cut := ctxDoneEdges(fn)
		bad := false
		for _, e := range factEdges(fn, cmpFact(vIs(kerr), token.NEQ, vNil(), "")) {
			r := reachableAvoiding(fn, e.From.Succs[e.Succ], cut, avoid)
			for _, ret := range returns(fn) {
				if r[ret.Block()] {
					bad = true
				}
			}
		}
		c.check(!bad, rule, name+": with a live context every path from a failed integrity check to the return removes the output", c.pos(k), "return unreachable when the removal block is taken out", "the error return can be reached without removing the bad output")
		// the failure is returned
		okF, why := failStopOK(fn, k)
		c.check(okF, rule, name+": a failed integrity check is returned as an error", c.pos(k), "fail-stop", why)
		// gated by the requested mode only
		vs.Desc = "checkIntegrity"
		c.requireGuardV(rule, top, vs, cmpFact(vFieldLoad("RestoreOptions.IntegrityCheck", nil), token.NEQ, vConstInt(0), "opt.IntegrityCheck != IntegrityCheckNone"))
		if fn != top {
			okT, whyT := failStopOK(top, vs.At().(ssa.CallInstruction))
			c.check(okT, rule, name+": a failed integrity check is returned as an error", c.pos(vs.At()), "fail-stop at the helper's call site", whyT)
		}
	}
	// checkIntegrity itself: success requires result == "ok"
	if ci := c.fn(rule, "ls.checkIntegrity"); ci != nil {
		for _, ret := range successReturns(ci) {
			c.requireAlts(rule, ci, Site{ret, "success return"}, []FP{
				cmpFact(vParam("mode"), token.EQL, vConstInt(0), "mode == IntegrityCheckNone"),
				cmpFact(vAny(), token.EQL, vConstStr("ok"), "result == \"ok\""),
			})
		}
	}
}

// c10Sinks: verification sinks, in litestream and in ltx v0.5.2.
func c10Sinks(c *Ctx) {
	const rule = "R5-verification-sinks"
	if fn := c.fnOpt("(*ls.Replica).Restore"); fn != nil {
		dd := callSitesV(fn, nameIs("(*ltx.Decoder).DecodeDatabaseTo"))
		c.floor(rule, len(dd), 1, "DecodeDatabaseTo in Restore")
		for _, vd := range dd {
			d := vd.Call()
			okF, why := failStopV(vd)
			c.check(okF, rule, fnName(fn)+": DecodeDatabaseTo failure fails the restore", c.pos(d), "fail-stop", why)
			// decodes from the compactor pipe into the staged file
			c.check(vCallResult(nameIs("os.Create"))(refArgs(d)[1]), rule, fnName(fn)+": database decoded into the staged file", c.pos(d), "os.Create(tmp)", "decoded into something else")
		}
		// compactor goroutine: every input reader is a plan element, compaction error reaches the pipe (cone walk)
	}
	if fn := c.fn(rule, "(*ltx.Decoder).DecodeDatabaseTo"); fn != nil {
		cl := callsTo(fn, nameIs("(*ltx.Decoder).Close"))
		c.floor(rule, len(cl), 1, "dec.Close in DecodeDatabaseTo")
		for _, k := range cl {
			for _, ret := range successReturns(fn) {
				c.requireGuard(rule, fn, Site{ret, "success return"}, cmpFact(vIs(resultOf(k, 0)), token.EQL, vNil(), "dec.Close() err == nil"))
			}
		}
		// page numbers are checked against the dense sequence
		for _, dp := range callsTo(fn, nameIs("(*ltx.Decoder).DecodePage")) {
			okF, _ := failStopOK(fn, dp)
			_ = okF
		}
	}
	if fn := c.fn(rule, "(*ltx.Decoder).Close"); fn != nil {
		n := 0
		for _, ret := range successReturns(fn) {
			// closed already: no-op return is allowed (state == closed)
			alts := []FP{
				cmpFact(vFieldLoad("Decoder.state", nil), token.EQL, vAny(), "already closed"),
				cmpFact(vAny(), token.EQL, vFieldPath("Decoder.trailer", "Trailer.FileChecksum"), "computed checksum == trailer.FileChecksum"),
			}
			n++
			c.requireAlts(rule, fn, Site{ret, "success return"}, alts)
		}
		c.floor(rule, n, 1, "success returns of ltx Decoder.Close")
		// the compared value derives from the running hash
		es := factEdges(fn, cmpFact(vAny(), token.EQL, vFieldPath("Decoder.trailer", "Trailer.FileChecksum"), ""))
		c.floor(rule, len(es), 1, "trailer checksum comparison in ltx Decoder.Close")
	}
	if fn := c.fn(rule, "(*ltx.Compactor).Compact"); fn != nil {
		n := 0
		for _, k := range callsTo(fn, nameIs("(*ltx.Decoder).Close")) {
			n++
			okF, why := failStopOK(fn, k)
			c.check(okF, rule, fnName(fn)+": closing (verifying) an input decoder is fail-stop", c.pos(k), "fail-stop", why)
			c.check(innermostLoopOf(naturalLoops(fn), k.Block()) != nil, rule, fnName(fn)+": every input decoder is closed (loop over inputs)", c.pos(k), "inside the input loop", "inputs are not all verified")
		}
		c.floor(rule, n, 1, "input dec.Close in ltx Compactor.Compact")
	}
}

func isParamExactly(v ssa.Value, p *ssa.Parameter) bool {
	if v == ssa.Value(p) {
		return true
	}
	// the parameter itself (a concatenation such as path + "-wal" is its own origin); the
	// parameter of a new helper also lists what its call sites pass
	for _, o := range origins(v) {
		if o == ssa.Value(p) {
			return true
		}
	}
	return false
}

func runC19(c *Ctx) {
	createTruncRule(c, "R5-reassembled-files-start-empty")
	c10PublishLast(c, "(*ls.Replica).RestoreV3")
	c19UseMetadata(c)
	v3SegmentContiguity(c)
	v3TimestampEligibility(c)
	errflowCone(c, func() *EFConfig {
		cfg := restoreConfig("(*ls.Replica).RestoreV3")
		cfg.Rule = "R3-errflow-restorev3-cone"
		return cfg
	}())
	// R4 branch and arbitration
	if fn := c.fn("R4-format-arbitration", "(*ls.Replica).Restore"); fn != nil {
		const rule = "R4-format-arbitration"
		for _, call := range callsTo(fn, nameIs("(*ls.Replica).RestoreV3")) {
			c.requireGuard(rule, fn, Site{call, "RestoreV3"}, cmpFact(vFieldLoad("RestoreOptions.TXID", nil), token.EQL, vConstInt(0), "opt.TXID == 0"))
			c.requireGuard(rule, fn, Site{call, "RestoreV3"}, truthFact(vFieldLoad("RestoreOptions.Follow", nil), false, "!opt.Follow"))
			c.requireGuard(rule, fn, Site{call, "RestoreV3"}, truthFact(vResult(nameIs("(*ls.Replica).shouldUseV3Restore"), 0), true, "shouldUseV3Restore"))
		}
		for _, call := range callsTo(fn, nameIs("(*ls.Replica).shouldUseV3Restore")) {
			c.check(vFieldLoad("RestoreOptions.Timestamp", nil)(refArgs(call)[3]), rule, fnName(fn)+": arbitration for opt.Timestamp", c.pos(call), "provenance matches", "arbitration ignores the requested time")
		}
	}
	// the time bounds both formats are compared by are true extremes
	for _, nm := range []string{"(*ls.Replica).TimeBoundsV3", "(*ls.Replica).TimeBounds"} {
		if fn := c.fn("R4-format-arbitration", nm); fn != nil {
			timeFoldRule(c, "R4-format-arbitration", fn, "createdAt", "Before")
			timeFoldRule(c, "R4-format-arbitration", fn, "updatedAt", "After")
		}
	}
	if fn := c.fn("R4-format-arbitration", "(*ls.Replica).shouldUseV3Restore"); fn != nil {
		const rule = "R4-format-arbitration"
		ts := vParam("timestamp")
		v3 := vFieldLoad("SnapshotInfoV3.CreatedAt", vResult(nameIs("(*ls.Replica).findBestV3SnapshotForTimestamp"), 0))
		// the eligible LTX snapshot: the finder's result, or (finder inlined) an element of the
		// timestamp-filtered FindLTXFiles listing
		ltxSnap := vOr(vResult(nameIs("(*ls.Replica).findBestLTXSnapshotForTimestamp"), 0), anyOrigin(func(o ssa.Value) bool {
			u, ok := o.(*ssa.UnOp)
			if !ok || u.Op != token.MUL {
				return false
			}
			ia, ok := u.X.(*ssa.IndexAddr)
			return ok && vResult(nameIs("ls.FindLTXFiles"), 0)(ia.X)
		}))
		lx := vFieldLoad("FileInfo.CreatedAt", ltxSnap)
		n := 0
		for _, ret := range returns(fn) {
			if len(ret.Results) < 1 || !vConstBool(true)(ret.Results[0]) || !isConst(ret.Results[0]) {
				continue
			}
			// only the returns in the timestamp branch
			if g, k := guardedBy(ret, truthFact(vCall("(time.Time).IsZero", ts), false, "")); !(k > 0 && g) {
				continue
			}
			n++
			c.requireAlts(rule, fn, Site{ret, "return true (timestamp restore)"}, []FP{
				cmpFact(ltxSnap, token.EQL, vNil(), "no eligible LTX snapshot"),
				truthFact(vCall("(time.Time).After", v3, lx), true, "eligible v3 snapshot newer than the eligible LTX snapshot"),
				truthFact(vCall("(time.Time).Before", lx, v3), true, ""),
				cmpFact(vAny(), token.EQL, vAny(), ""),
			}[:3])
			c.requireGuard(rule, fn, Site{ret, "return true (timestamp restore)"}, cmpFact(vResult(nameIs("(*ls.Replica).findBestV3SnapshotForTimestamp"), 0), token.NEQ, vNil(), "an eligible v3 snapshot exists"))
		}
		c.floor(rule, n, 1, "true returns in the timestamp branch of shouldUseV3Restore")
		for _, call := range callsTo(fn, nameIs("(*ls.Replica).findBestV3SnapshotForTimestamp", "(*ls.Replica).findBestLTXSnapshotForTimestamp")) {
			a := refArgs(call)
			c.check(ts(a[len(a)-1]), rule, fnName(fn)+": eligible snapshots looked up for the requested timestamp", c.pos(call), "timestamp forwarded", "lookup uses a different time")
		}
	}
	// output rules by reference
	c10OutputGuard(c, "(*ls.Replica).RestoreV3")
	c10IntegrityCleanup(c, "(*ls.Replica).RestoreV3")
	_ = strings.Contains
}

// timeFoldRule: `v` is folded as a running minimum (cmp = "Before") or maximum
// (cmp = "After") of timestamps: every assignment of a new value X to the
// variable happens only under v.IsZero() or X.<cmp>(v) — compared against the
// *same* variable (a fold that compares against the other bound silently
// returns the last element instead of the extreme).
var foldSeen = map[string]bool{}

func timeFoldRule(c *Ctx, rule string, fn *ssa.Function, varName, cmp string) {
	// the variable is identified by the result position it is returned at (createdAt =
	// result 0, updatedAt = result 1), not by its name: its phi web, the parameters
	// feeding that web (in an extracted helper) and, in cell form, its alloc
	idx := 0
	if cmp == "After" {
		idx = 1
	}
	web := map[ssa.Value]bool{}
	cells := map[*ssa.Alloc]bool{}
	var grow func(v ssa.Value)
	grow = func(v ssa.Value) {
		if v == nil || web[v] {
			return
		}
		switch x := v.(type) {
		case *ssa.Phi:
			web[v] = true
			for _, e := range x.Edges {
				switch e.(type) {
				case *ssa.Phi, *ssa.Parameter:
					grow(e)
				}
			}
		case *ssa.Parameter:
			web[v] = true
		case *ssa.UnOp:
			if a, ok := cellOf(x.X).(*ssa.Alloc); ok && x.Op == token.MUL {
				cells[a] = true
			}
		}
	}
	for _, r := range returns(fn) {
		if idx < len(r.Results) {
			grow(r.Results[idx])
		}
	}
	// of the parameters feeding the web, the variable is the one tested with IsZero()
	// (the others are the candidate values)
	for v := range web {
		p, ok := v.(*ssa.Parameter)
		if !ok {
			continue
		}
		zeroTested := false
		for _, call := range callsTo(fn, nameIs("(time.Time).IsZero")) {
			if a := call.Common().Args; len(a) > 0 && a[0] == ssa.Value(p) {
				zeroTested = true
			}
		}
		if !zeroTested {
			delete(web, v)
		}
	}
	isVar := func(v ssa.Value) bool {
		if web[v] {
			return true
		}
		if u, ok := v.(*ssa.UnOp); ok && u.Op == token.MUL {
			if a, ok := cellOf(u.X).(*ssa.Alloc); ok && cells[a] {
				return true
			}
		}
		return false
	}
	n := 0
	check := func(val ssa.Value, at ssa.Instruction, has func([]FP) bool) {
		if isVar(val) {
			return // the variable keeps its value
		}
		if k, isK := val.(*ssa.Const); isK && k.Value == nil {
			return // zero value initialisation
		}
		// the fold step was extracted into a helper: the rule applies inside it
		for _, o := range []ssa.Value{val} {
			var call *ssa.Call
			switch x := o.(type) {
			case *ssa.Call:
				call = x
			case *ssa.Extract:
				call, _ = x.Tuple.(*ssa.Call)
			}
			if call != nil {
				if h := call.Call.StaticCallee(); isNewHelper(h) && !foldSeen[fmt.Sprintf("%p|%s", h, varName)] {
					foldSeen[fmt.Sprintf("%p|%s", h, varName)] = true
					timeFoldRule(c, rule, h, varName, cmp)
				}
				if h := call.Call.StaticCallee(); isNewHelper(h) {
					n++
					return
				}
			}
		}
		n++
		alts := []FP{
			truthFact(vCall("(time.Time).IsZero", isVar), true, varName+".IsZero()"),
			truthFact(vCall("(time.Time)."+cmp, func(v ssa.Value) bool { return v == val || sameFieldLoad(v, val) }, isVar), true, "x."+cmp+"("+varName+")"),
		}
		ok := has(alts)
		what := "maximum"
		if cmp == "Before" {
			what = "minimum"
		}
		c.check(ok, rule, fmt.Sprintf("%s: %s is a running %s: a new value is taken only under %s.IsZero() or x.%s(%s)", fnName(fn), varName, what, varName, cmp, varName), c.pos(at),
			"assignment edge carries the comparison against the same variable", varName+" is overwritten under a comparison against something else: the result is not the "+what+" over all files (format arbitration and the restore target then use a wrong bound)")
	}
	var allBlocks []*ssa.BasicBlock
	for _, g := range withClosures(fn) {
		allBlocks = append(allBlocks, g.Blocks...)
	}
	for _, b := range allBlocks {
		for _, in := range b.Instrs {
			switch x := in.(type) {
			case *ssa.Phi:
				if !web[x] {
					continue
				}
				for i, e := range x.Edges {
					pred := b.Preds[i]
					blk := b
					check(e, lastInstr(pred), func(fps []FP) bool {
						for _, fp := range fps {
							if ifi, isIf := lastInstr(pred).(*ssa.If); isIf {
								for si, sb := range pred.Succs {
									if sb == blk && fp.holds(edgeFact(ifi, si)) {
										return true
									}
								}
							}
						}
						g, k := guardedBy(lastInstr(pred), fps...)
						return k > 0 && g
					})
				}
			case *ssa.Store:
				if a, ok := cellOf(x.Addr).(*ssa.Alloc); ok && cells[a] && a.Parent() == fn {
					st := x
					check(x.Val, x, func(fps []FP) bool { g, k := guardedBy(st, fps...); return k > 0 && g })
				}
			}
		}
	}
	c.floor(rule, n, 1, "assignments of a new value to "+varName+" in "+fnName(fn))
}

// sameFieldLoad: a and b are loads of the same field of the same base object.
func sameFieldLoad(a, b ssa.Value) bool {
	ua, ok1 := a.(*ssa.UnOp)
	ub, ok2 := b.(*ssa.UnOp)
	if !ok1 || !ok2 || ua.Op != token.MUL || ub.Op != token.MUL {
		return false
	}
	fa, ok1 := ua.X.(*ssa.FieldAddr)
	fb, ok2 := ub.X.(*ssa.FieldAddr)
	if !ok1 || !ok2 || fa.Field != fb.Field {
		return false
	}
	return fa.X == fb.X || sameValue(fa.X, fb.X)
}

// c19UseMetadata: every listing whose CreatedAt is compared with a requested time asks the
// backend for accurate (metadata) timestamps: object stores otherwise report upload times.
func c19UseMetadata(c *Ctx) {
	const rule = "R4-format-arbitration"
	n := 0
	// every FindLTXFiles call whose predicate compares FileInfo.CreatedAt with a time
	for _, fn := range c.P.ProdFuncs() {
		for _, call := range callsTo(fn, nameIs("ls.FindLTXFiles")) {
			timed := false
			for _, a := range call.Common().Args {
				mc, ok := a.(*ssa.MakeClosure)
				if !ok {
					continue
				}
				if g, ok := mc.Fn.(*ssa.Function); ok {
					for _, k := range calls(g) {
						nm := calleeName(k)
						if (nm == "(time.Time).Before" || nm == "(time.Time).After") && len(k.Common().Args) == 2 &&
							(vFieldLoad("FileInfo.CreatedAt", nil)(k.Common().Args[0]) || vFieldLoad("FileInfo.CreatedAt", nil)(k.Common().Args[1])) {
							timed = true
						}
					}
				}
			}
			if !timed {
				continue
			}
			n++
			a := namedArg(call, "useMetadata")
			c.check(a != nil && isConst(a) && vConstBool(true)(a), rule, fnName(fn)+": FindLTXFiles(useMetadata = true) for a timestamp comparison", c.pos(call), "constant true",
				"the snapshot listing compared with the requested time does not request accurate timestamps: on object stores CreatedAt is then the upload time and an eligible LTX backup is judged too new")
		}
	}
	c.floor(rule, n, 1, "timestamp-filtered snapshot listings")
}

// v3TimestampEligibility: in the v0.3.x path a snapshot or WAL segment is selected only if
// it is not newer than the requested time (shared by C19, C10 and C15: a timestamp
// restore never returns data from after T whichever format serves it).
func v3TimestampEligibility(c *Ctx) {
	// R2 eligibility
	if fn := c.fn("R2-eligibility", "ls.findBestSnapshotV3"); fn != nil {
		const rule = "R2-eligibility"
		ts := vParam("timestamp")
		n := 0
		alts := append([]FP{isZeroTime(ts, "timestamp.IsZero()")}, notAfter(vFieldLoad("SnapshotInfoV3.CreatedAt", nil), ts, "snapshot.CreatedAt not after timestamp")...)
		for _, ret := range returns(fn) {
			if len(ret.Results) == 0 || isNilConst(retOperand(ret, 0)) || inRangeFuncResume(ret.Block()) {
				continue
			}
			n++
			c.requireAlts(rule, fn, Site{ret, "return &snapshots[i]"}, alts)
		}
		// `return &snapshots[i]` inside a range-over-func body
		for _, st := range yieldResultStores(fn, 0) {
			if isNilConst(st.Val) {
				continue
			}
			n++
			c.requireAlts(rule, fn, Site{st, "return &snapshots[i]"}, alts)
		}
		c.floor(rule, n, 2, "non-nil returns of findBestSnapshotV3")
	}
	if fn := c.fn("R2-eligibility", "ls.filterWALSegmentsV3"); fn != nil {
		const rule = "R2-eligibility"
		ts := vParam("timestamp")
		n := 0
		for _, call := range calls(fn) {
			if calleeName(call) != "builtin:append" {
				continue
			}
			n++
			c.requireGuard(rule, fn, Site{call, "result = append(result, seg)"}, cmpFact(vFieldLoad("WALSegmentInfoV3.Index", nil), token.GEQ, vParam("snapshotIndex"), "seg.Index >= snapshotIndex"))
			alts := append([]FP{isZeroTime(ts, "timestamp.IsZero()")}, notAfter(vFieldLoad("WALSegmentInfoV3.CreatedAt", nil), ts, "seg.CreatedAt not after timestamp")...)
			c.requireAlts(rule, fn, Site{call, "result = append(result, seg)"}, alts)
			// completeness: a segment is skipped only because it precedes the snapshot or is
			// strictly newer than the requested time ("not newer than T" includes T itself)
			if l := innermostLoopOf(naturalLoops(fn), call.Block()); l != nil {
				seg := vFieldLoad("WALSegmentInfoV3.CreatedAt", nil)
				rejects := []FP{
					cmpFact(vFieldLoad("WALSegmentInfoV3.Index", nil), token.LSS, vParam("snapshotIndex"), "seg.Index < snapshotIndex"),
					truthFact(vCall("(time.Time).After", seg, ts), true, "seg.CreatedAt.After(timestamp)"),
					truthFact(vCall("(time.Time).Before", ts, seg), true, "timestamp.Before(seg.CreatedAt)"),
				}
				cut := cutEdges(fn, rejects...)
				avoid := map[*ssa.BasicBlock]bool{call.Block(): true}
				bad := false
				for _, s := range l.Header.Succs {
					if !l.Blocks[s] {
						continue
					}
					if reachableAvoiding(fn, s, cut, avoid)[l.Header] {
						bad = true
					}
				}
				c.check(!bad, rule, fnName(fn)+": a segment is dropped only if [seg.Index < snapshotIndex OR seg.CreatedAt strictly after timestamp]", c.pos(call),
					"every iteration that skips the append passes one of those edges", "a segment can be dropped for another reason (e.g. CreatedAt equal to the requested time): the restore silently stops one segment early")
			}
		}
		// the library form: slices.DeleteFunc(copy, pred) keeps exactly the elements for which pred is false
		for _, call := range callsTo(fn, nameIs("slices.DeleteFunc")) {
			a := refArgs(call)
			mc, isMC := a[1].(*ssa.MakeClosure)
			if !isMC {
				continue
			}
			g := mc.Fn.(*ssa.Function)
			n++
			need := [][]FP{
				{cmpFact(vFieldLoad("WALSegmentInfoV3.Index", nil), token.GEQ, vParam("snapshotIndex"), "seg.Index >= snapshotIndex")},
				append([]FP{isZeroTime(ts, "timestamp.IsZero()")}, notAfter(vFieldLoad("WALSegmentInfoV3.CreatedAt", nil), ts, "seg.CreatedAt not after timestamp")...),
			}
			for _, alts := range need {
				ok := true
				for _, r := range returns(g) {
					v := retOperand(r, 0)
					if vConstBool(true)(v) && isConst(v) {
						continue // element deleted
					}
					if isConst(v) {
						gd, k := guardedBy(r, alts...)
						ok = ok && k > 0 && gd
						continue
					}
					if !valueEntails(v, false, alts, 0) {
						gd, k := guardedBy(r, alts...)
						ok = ok && k > 0 && gd
					}
				}
				c.check(ok, rule, fnName(fn)+": a segment is kept (predicate false) only if ["+descs(alts)+"]", c.pos(call), "every false return of the delete predicate entails the fact", "a segment outside the eligible range can be kept")
			}
			// the filtered slice is what is returned, and the input is the (copied) segment list
			src := a[0]
			okSrc := vParam("segments")(src)
			for _, o := range origins(src) {
				if cl, isCl := o.(*ssa.Call); isCl && calleeName(cl) == "slices.Clone" && vParam("segments")(cl.Call.Args[0]) {
					okSrc = true
				}
			}
			c.check(okSrc, rule, fnName(fn)+": filters the given segment list", c.pos(call), "segments (or a clone)", "filter applied to another list")
		}
		c.floor(rule, n, 1, "appends in filterWALSegmentsV3")
	}
	if fn := c.fn("R2-eligibility", "(*ls.Replica).RestoreV3"); fn != nil {
		_ = fn
	}
}

// c10PublishLast: the rename onto the output path is the last content-producing step
// of a restore.  Every fallible call that can run after the rename has succeeded is one
// of the finishing steps (directory sync, integrity check with its own cleanup, follow
// mode on the completed database); a step that fetches, validates or applies replica
// data after publication would leave a partial database at the output path when it fails.
func c10PublishLast(c *Ctx, name string) {
	const rule = "R8-publish-last"
	fn := c.fn(rule, name)
	if fn == nil {
		return
	}
	finishing := nameIs("ls/internal.FsyncDir", "ls.checkIntegrity", "ls.WriteTXIDFile", "(*ls.Replica).follow",
		"os.Remove", "iface:context.Context.Err", "iface:io.Closer.Close", "iface:io.ReadCloser.Close", "(*ls/internal.ResumableReader).Close")
	n := 0
	for _, ren := range callsTo(fn, nameIs("os.Rename")) {
		if len(ren.Common().Args) != 2 || !vFieldLoad("RestoreOptions.OutputPath", nil)(ren.Common().Args[1]) {
			continue
		}
		n++
		region := map[*ssa.BasicBlock]bool{}
		for _, e := range nilEdges(fn, ren) {
			for b := range reachable(fn, e.From.Succs[e.Succ], nil) {
				region[b] = true
			}
		}
		var bad []string
		var scan func(f *ssa.Function, in func(*ssa.BasicBlock) bool, depth int)
		scan = func(f *ssa.Function, in func(*ssa.BasicBlock) bool, depth int) {
			for _, k := range calls(f) {
				if !in(k.Block()) || k == ren {
					continue
				}
				if _, isDefer := k.(*ssa.Defer); isDefer {
					continue
				}
				if errResultIndex(k.Common().Signature()) < 0 || finishing(calleeName(k)) {
					continue
				}
				if nm := calleeName(k); strings.HasPrefix(nm, "fmt.") || strings.HasPrefix(nm, "errors.") {
					continue // builds an error value, cannot fail
				}
				if h := k.Common().StaticCallee(); isNewHelper(h) && depth < 2 {
					scan(h, func(*ssa.BasicBlock) bool { return true }, depth+1)
					continue
				}
				bad = append(bad, calleeName(k)+" @ "+c.pos(k))
			}
		}
		scan(fn, func(b *ssa.BasicBlock) bool { return region[b] }, 0)
		c.check(len(bad) == 0, rule, fnName(fn)+": nothing that can fail runs after the rename onto the output path except the finishing steps", c.pos(ren),
			"only directory sync, integrity check, follow mode and closes follow the publication",
			"a fallible step runs after the database was published at the output path: "+strings.Join(bad, "; ")+" — its failure returns an error but leaves a database (possibly partial) behind")
	}
	c.floor(rule, n, 1, "rename onto opt.OutputPath in "+name)
}

// v3SegmentContiguity: the v0.3.x WAL chain applied on top of a snapshot is contiguous from
// the snapshot's own index (shared by C19 and C10: a missing first WAL file is an error, not
// a silently shorter database).
func v3SegmentContiguity(c *Ctx) {
	// R1 contiguity
	if fn := c.fn("R1-segment-contiguity", "(*ls.Replica).applyWALSegmentsV3"); fn != nil {
		const rule = "R1-segment-contiguity"
		aps := callsTo(fn, nameIs("(*ls.Replica).appendWALSegmentV3"))
		if len(aps) == 0 {
			// the helper inlined into the loop: the segment download itself is the site
			aps = callsTo(fn, nameHasSuffix(".OpenWALSegmentV3"))
		}
		c.floor(rule, len(aps), 1, "appendWALSegmentV3 calls")
		idx := vFieldLoad("WALSegmentInfoV3.Index", nil)
		off := vFieldLoad("WALSegmentInfoV3.Offset", nil)
		for _, ap := range aps {
			c.requireAlts(rule, fn, Site{ap, "appendWALSegmentV3"}, []FP{
				cmpFact(idx, token.EQL, vAny(), "seg.Index == expectedIndex"),
				cmpFact(off, token.EQL, func(v ssa.Value) bool { return !vConstInt(0)(v) || !isConst(v) }, "seg.Offset == running offset"),
			})
			// the Index test applies to segments that start a WAL file (Offset == 0)
			okF, why := failStopOK(fn, ap)
			c.check(okF, rule, fnName(fn)+": a failed segment write fails the restore", c.pos(ap), "fail-stop", why)
		}
		// expectedIndex starts at the snapshot index and steps by one; the running offset starts at 0 and adds the bytes written
		n := 0
		for _, e := range factEdges(fn, cmpFact(idx, token.EQL, vAny(), "")) {
			ifi := lastInstr(e.From).(*ssa.If)
			f := edgeFact(ifi, e.Succ)
			exp := f.R
			if idx(f.R) {
				exp = f.L
			}
			n++
			leaves, _ := phiLeaves(exp)
			if u, isU := exp.(*ssa.UnOp); isU && u.Op == token.MUL {
				if cell := cellOf(u.X); cell != nil {
					leaves = cellStores(cell)
				}
				// the counter kept in a field of a local state struct
				if fa, isFA := u.X.(*ssa.FieldAddr); isFA {
					leaves = nil
					for _, st := range storesToFieldDeep(fn, fieldAddrName(fa)) {
						leaves = append(leaves, st.Val)
					}
				}
			}
			ok := len(leaves) > 0
			sawParam := false
			for _, l := range leaves {
				if vParam("snapshotIndex")(l) {
					if _, isP := l.(*ssa.Parameter); isP {
						sawParam = true
						continue
					}
				}
				// the snapshot passed as a whole: its Index field
				if vFieldLoad("SnapshotInfoV3.Index", nil)(l) {
					sawParam = true
					continue
				}
				if b, isB := l.(*ssa.BinOp); isB && b.Op == token.ADD && vConstInt(1)(b.Y) {
					continue
				}
				ok = false
			}
			c.check(ok && sawParam, rule, fnName(fn)+": expectedIndex starts at the snapshot's index and increases by one per WAL file", c.pos(ifi), "phi over {snapshotIndex, expectedIndex+1}", "the first WAL index applied is not tied to the snapshot's index (a missing first WAL file would go unnoticed)")
		}
		c.floor(rule, n, 1, "index comparisons")
		// the new WAL file is opened only for Offset == 0 segments whose Index matched
		for _, op := range callsTo(fn, nameIs("os.OpenFile")) {
			c.requireGuard(rule, fn, Site{op, "open new WAL file"}, cmpFact(off, token.EQL, vConstInt(0), "seg.Offset == 0"))
			c.requireGuard(rule, fn, Site{op, "open new WAL file"}, cmpFact(idx, token.EQL, vAny(), "seg.Index == expectedIndex"))
		}
	}
	if fn := c.fn("R1-segment-contiguity", "(*ls.Replica).RestoreV3"); fn != nil {
		for _, call := range callsTo(fn, nameIs("(*ls.Replica).applyWALSegmentsV3")) {
			// the chosen snapshot's index and generation are handed over: as two arguments,
			// or as the snapshot value itself
			chosen := vResult(nameIs("ls.findBestSnapshotV3"), 0)
			whole := false
			for _, x := range call.Common().Args {
				if u, isU := x.(*ssa.UnOp); isU && u.Op == token.MUL && chosen(u.X) && strings.Contains(x.Type().String(), "SnapshotInfoV3") {
					whole = true
				}
				if chosen(x) && strings.Contains(x.Type().String(), "SnapshotInfoV3") {
					whole = true
				}
			}
			a := namedArg(call, "snapshotIndex")
			c.check(whole || (a != nil && vFieldLoad("SnapshotInfoV3.Index", chosen)(a)), "R1-segment-contiguity", fnName(fn)+": contiguity starts from the chosen snapshot's index", c.pos(call), "snapshot.Index", "the WAL chain is not anchored at the chosen snapshot")
			g := namedArg(call, "generation")
			c.check(whole || (g != nil && vFieldLoad("SnapshotInfoV3.Generation", nil)(g)), "R1-segment-contiguity", fnName(fn)+": segments come from the snapshot's generation", c.pos(call), "snapshot.Generation", "segments of another generation could be applied")
		}
		for _, call := range callsTo(fn, nameIs("ls.filterWALSegmentsV3")) {
			a := refArgs(call)
			c.check(vFieldLoad("SnapshotInfoV3.Index", nil)(a[1]) && vFieldLoad("RestoreOptions.Timestamp", nil)(a[2]), "R2-eligibility", fnName(fn)+": segments filtered by (snapshot.Index, opt.Timestamp)", c.pos(call), "provenance matches", "filter arguments are not the snapshot index and requested time")
		}
		for _, call := range callsTo(fn, nameIs("ls.findBestSnapshotV3")) {
			c.check(vFieldLoad("RestoreOptions.Timestamp", nil)(refArgs(call)[1]), "R2-eligibility", fnName(fn)+": snapshot chosen for opt.Timestamp", c.pos(call), "provenance matches", "snapshot not chosen for the requested time")
		}
	}
}
