package main

// C11 — files are flushed before they are published, and published before acknowledged.

func init() {
	register(&PropSpec{
		ID:  "C11",
		Run: runC11,
		Explanation: "File-publication typestate (E2) at every os.Rename in the production program (7 sites: (*DB).sync, checkDatabaseBehindReplica, file.WriteLTXFile, Restore, RestoreV3, WriteTXIDFile, Hydrator.saveMeta): " +
			"forward must-dataflow over the SSA CFG shows the staged file is fsynced after its last write (writes include passing the handle as an io.Writer and any method of an object constructed around it) on every path to the rename; " +
			"every path from the rename to a success return passes the nil edge of a structurally validated directory-sync helper applied to filepath.Dir(dst); Sync/Close/Rename/dir-sync failures are fail-stop.  " +
			"RestoreV3's producers are summarised (downloadSnapshotV3 returns f.Sync(); WAL application goes through SQLite's checkpoint).  Delete-after-durable: deletions consume only replica listings, whose entries exist only after a completed publication (guards are C07's).",
		NotDecided:  "whether fsync reaches the medium; remote back ends; the window between a rename and its directory sync as seen by a concurrent lister",
		Assumptions: []string{"POSIX rename atomicity; fsync(file) + fsync(dir) make a rename durable", "SQLite's wal_checkpoint(TRUNCATE) fsyncs the database file (RestoreV3 only)"},
	})
}

func runC11(c *Ctx) {
	fsPublicationRules(c, true, false)
}
