package main

import "golang.org/x/tools/go/ssa"

// C11 — files are flushed before they are published, and published before acknowledged.

func init() {
	register(&PropSpec{
		ID:  "C11",
		Run: runC11,
		Explanation: "File-publication typestate (E2) at every os.Rename in the production program (7 sites: (*DB).sync, checkDatabaseBehindReplica, file.WriteLTXFile, Restore, RestoreV3, WriteTXIDFile, Hydrator.saveMeta): " +
			"forward must-dataflow over the SSA CFG shows the staged file is fsynced after its last write (writes include passing the handle as an io.Writer and any method of an object constructed around it) on every path to the rename; " +
			"every path from the rename to a success return passes the nil edge of a structurally validated directory-sync helper applied to filepath.Dir(dst); Sync/Close/Rename/dir-sync failures are fail-stop.  " +
			"RestoreV3's producers are summarised (downloadSnapshotV3 returns f.Sync(); WAL application goes through SQLite's checkpoint).  Delete-after-durable: deletions consume only replica listings, whose entries exist only after a completed publication (guards are C07's).",
		NotDecided:  "whether fsync reaches the medium; remote back ends; the window between a rename and its directory sync as seen by a concurrent lister",
		Assumptions: []string{"POSIX rename atomicity; fsync(file) + fsync(dir) make a rename durable", "SQLite's wal_checkpoint(TRUNCATE) fsyncs the database file (RestoreV3 only)"},
	})
}

func runC11(c *Ctx) {
	fsPublicationRules(c, true, false)
	c11UnlinkOnlyToSupersede(c)
	remoteStagingUnique(c, "R6-remote-staging-unique")
	c11FinalNameKept(c)
}

// c11UnlinkOnlyToSupersede: the restore command unlinks an existing output database
// (and its sidecars) only on the way to a restore that will supersede it: once
// prepareOutputPath has succeeded, no return of its caller is reachable without
// passing the Replica.Restore call (a dry run, a usage error or any other early exit
// must come before the unlink).
func c11UnlinkOnlyToSupersede(c *Ctx) {
	const rule = "R5-unlink-only-to-supersede"
	prep := c.fn(rule, "(*ls/cmd/litestream.RestoreCommand).prepareOutputPath")
	if prep == nil {
		return
	}
	// the callee really is the unlinking step (otherwise the rule has lost its subject)
	c.floor(rule, len(callsToDeep(prep, nameIs("os.Remove", "os.RemoveAll"))), 1, "os.Remove in prepareOutputPath")
	n := 0
	for _, call := range callSitesOf(prep) {
		fn := call.Parent()
		for fn.Parent() != nil {
			fn = fn.Parent()
		}
		if call.Parent() != fn {
			continue
		}
		n++
		avoid := map[*ssa.BasicBlock]bool{}
		rs := callSitesV(fn, nameIs("(*ls.Replica).Restore"))
		for _, r := range rs {
			avoid[r.At().Block()] = true
		}
		name := fnName(fn) + ": after prepareOutputPath removed the existing output, every exit passes Replica.Restore"
		if len(rs) == 0 {
			c.fail(rule, name, c.pos(call), "no Replica.Restore call in the function that unlinks the output path")
			continue
		}
		bad := ""
		for _, e := range nilEdges(fn, call) {
			start := e.From.Succs[e.Succ]
			r := reachableAvoiding(fn, start, nil, avoid)
			for _, ret := range returns(fn) {
				if r[ret.Block()] && !avoid[ret.Block()] {
					bad = c.pos(ret)
				}
			}
		}
		if len(nilEdges(fn, call)) == 0 {
			bad = "no test of prepareOutputPath's error"
		}
		c.check(bad == "", rule, name, c.pos(call), "no return is reachable from the success edge of prepareOutputPath without passing the restore",
			"the existing output database and its sidecars are unlinked on a path that returns without restoring (return at "+bad+"): a file is deleted although nothing supersedes it")
	}
	c.floor(rule, n, 1, "call sites of prepareOutputPath")
}

// remoteStagingUnique: a staging file on a *remote* file system can be written by more
// than one uploader at a time (two instances during a deploy, a retry racing an attempt that
// is still draining): its name carries a per-writer unique component, so that one
// uploader's create-with-truncate never hits the file another one is about to publish.
// (The local file replica stages under a fixed ".tmp" name: its writers are serialised by
// the process.)
func remoteStagingUnique(c *Ctx, rule string) {
	n := 0
	for _, fn := range c.P.ProdFuncs() {
		for _, op := range callsTo(fn, nameIs("(*github.com/pkg/sftp.Client).OpenFile", "(*github.com/pkg/sftp.Client).Create")) {
			a := op.Common().Args
			if len(a) < 2 {
				continue
			}
			// only files that are published by a rename of the same name
			renamed := false
			for _, rn := range callsTo(fn, nameIs("(*github.com/pkg/sftp.Client).Rename", "(*github.com/pkg/sftp.Client).PosixRename")) {
				if ra := rn.Common().Args; len(ra) >= 2 && (ra[1] == a[1] || sameValue(ra[1], a[1])) {
					renamed = true
				}
			}
			if !renamed {
				continue
			}
			n++
			c.check(hasUniqueComponent(a[1], 0), rule, fnName(fn)+": the remote staging name is unique per upload", c.pos(op), "name includes os.Getpid()/time.Now()",
				"every upload of the same LTX name stages under the same remote name: two overlapping uploaders truncate and overwrite each other's staged bytes and a torn file is renamed to the final LTX name")
		}
	}
	c.floor(rule, n, 1, "remote staging files (sftp create + rename)")
}

// hasUniqueComponent: the string value is formatted from a per-process or per-instant value.
func hasUniqueComponent(v ssa.Value, d int) bool {
	if v == nil || d > 5 {
		return false
	}
	for _, o := range origins(v) {
		switch x := o.(type) {
		case *ssa.Call:
			switch calleeName(x) {
			case "os.Getpid", "(time.Time).UnixNano", "(time.Time).UnixMicro", "time.Now", "math/rand.Int63", "math/rand.Int", "crypto/rand.Read":
				return true
			}
			for _, a := range x.Call.Args {
				if hasUniqueComponent(a, d+1) {
					return true
				}
			}
		case *ssa.BinOp:
			if hasUniqueComponent(x.X, d+1) || hasUniqueComponent(x.Y, d+1) {
				return true
			}
		case *ssa.Slice:
			// variadic arguments: the backing array's element stores
			if al, ok := x.X.(*ssa.Alloc); ok && al.Referrers() != nil {
				for _, r := range *al.Referrers() {
					ia, ok := r.(*ssa.IndexAddr)
					if !ok || ia.Referrers() == nil {
						continue
					}
					for _, rr := range *ia.Referrers() {
						if st, ok := rr.(*ssa.Store); ok && hasUniqueComponent(st.Val, d+1) {
							return true
						}
					}
				}
			}
		case *ssa.MakeInterface:
			if hasUniqueComponent(x.X, d+1) {
				return true
			}
		case *ssa.Convert:
			if hasUniqueComponent(x.X, d+1) {
				return true
			}
		}
	}
	return false
}

// c11FinalNameKept: a function that publishes a file with os.Rename(src, dst) unlinks dst
// itself only where its own rename has succeeded (a cleanup closure counts from the point
// where it is created).  Before that, whatever carries the final name is an earlier, durable
// file that nothing supersedes yet; removing it on a failure path loses it.
func c11FinalNameKept(c *Ctx) {
	const rule = "R7-final-name-unlinked-only-after-own-rename"
	isRm := nameIs("os.Remove", "os.RemoveAll")
	nr := 0
	for _, rs := range renameSites(c.P) {
		if rs.Lifted {
			continue
		}
		fn := rs.Fn
		nr++
		var starts []*ssa.BasicBlock
		for _, e := range nilEdges(fn, rs.Call) {
			starts = append(starts, e.From.Succs[e.Succ])
		}
		after := func(site ssa.Instruction) bool {
			if site == nil || site.Parent() != fn {
				return false
			}
			for _, s := range starts {
				if s == site.Block() || s.Dominates(site.Block()) {
					return true
				}
			}
			return false
		}
		for i, g := range withClosures(fn) {
			for _, k := range callsTo(g, isRm) {
				a := k.Common().Args
				if len(a) != 1 || !exprEq(a[0], rs.Dst) || exprEq(a[0], rs.Src) {
					continue
				}
				site := ssa.Instruction(k)
				if i > 0 {
					site = liftTo(fn, k)
				}
				c.check(after(site), rule, fnName(fn)+": the destination of its own rename is unlinked only after that rename succeeded", c.pos(k),
					"dominated by the success edge of the rename", "the final name can be unlinked on a path where this function has not published anything under it: an earlier durable file is deleted and nothing supersedes it")
			}
		}
	}
	c.floor(rule, nr, 5, "rename sites examined")
}
