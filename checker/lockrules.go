package main

import (
	"fmt"
	"sort"
	"strings"

	"golang.org/x/tools/go/ssa"
)

// heldBefore returns the must-held set just before instruction at (given the
// block in-sets computed by the last analyse of its function).
func (la *lockAnalysis) heldBefore(at ssa.Instruction) lockSet {
	fn := at.Parent()
	in := la.inMust[fn]
	if in == nil {
		return lockSet{}
	}
	must, ok := in[at.Block()]
	if !ok {
		return lockSet{}
	}
	must = must.clone()
	may := must.clone()
	var pend []pendingAcq
	for _, x := range at.Block().Instrs {
		if x == at {
			break
		}
		la.step(fn, x, must, may, &pend, false)
	}
	return must
}

// interproc computes must-held-at-entry for every production function.
func (la *lockAnalysis) interproc() {
	funcs := la.p.ProdFuncs()
	callers := map[*ssa.Function][]ssa.CallInstruction{}
	goTarget := map[*ssa.Function]bool{}
	escaped := map[*ssa.Function]bool{}
	deferredIn := map[*ssa.Function][]*ssa.Defer{}
	var live []*ssa.Function
	for _, f := range funcs {
		if !deadInProduction(la.p, f) {
			live = append(live, f)
		}
	}
	funcs = live
	for _, f := range funcs {
		for _, b := range f.Blocks {
			for _, in := range b.Instrs {
				switch x := in.(type) {
				case *ssa.Go:
					for _, g := range la.goTargets(x) {
						goTarget[g] = true
					}
				case *ssa.Defer:
					for _, g := range la.deferTargets(x) {
						deferredIn[g] = append(deferredIn[g], x)
					}
				case *ssa.Call:
					for _, g := range la.calleeFns(x) {
						callers[g] = append(callers[g], x)
					}
				case *ssa.MakeClosure:
					g := x.Fn.(*ssa.Function)
					// closure used other than as the callee of a direct call / once.Do / defer / go
					for _, r := range *x.Referrers() {
						switch rr := r.(type) {
						case *ssa.Call:
							if rr.Call.Value == ssa.Value(x) {
								continue
							}
							if calleeName(rr) == "(*sync.Once).Do" {
								continue
							}
							escaped[g] = true
						case *ssa.Defer, *ssa.Go, *ssa.DebugRef:
						case *ssa.Store:
							// stored to a local then called: treat calls through the cell as direct
							escaped[g] = !onlyCalledThroughCell(x, rr)
						default:
							escaped[g] = true
						}
					}
				}
			}
		}
	}
	top := map[*ssa.Function]bool{}
	var work []*ssa.Function
	for _, f := range funcs {
		isRoot := goTarget[f] || escaped[f] || (len(callers[f]) == 0 && len(deferredIn[f]) == 0)
		if f.Parent() == nil && f.Object() != nil && f.Object().Exported() {
			isRoot = true
		}
		if f.Parent() == nil && f.Signature.Recv() != nil {
			// methods may be called through interfaces
			if f.Object() != nil && f.Object().Exported() {
				isRoot = true
			}
		}
		if isRoot {
			la.entry[f] = lockSet{}
			work = append(work, f)
		} else {
			top[f] = true
		}
	}
	n := 0
	for len(work) > 0 && n < 200000 {
		n++
		f := work[0]
		work = work[1:]
		exM, _ := la.analyse(f, la.entry[f], false)
		for _, b := range f.Blocks {
			for _, in := range b.Instrs {
				if d, isD := in.(*ssa.Defer); isD {
					var held lockSet
					first := true
					for r, m := range exM {
						if !dominates(d, r) {
							continue // the deferred call is not registered on this exit
						}
						if first {
							held, first = m.clone(), false
						} else {
							held = intersect(held, m)
						}
					}
					if held == nil {
						held = lockSet{}
					}
					// deferred releases registered later run earlier (LIFO)
					for _, b2 := range f.Blocks {
						for _, in2 := range b2.Instrs {
							d2, ok := in2.(*ssa.Defer)
							if !ok || d2 == d || !dominates(d, d2) {
								continue
							}
							if op, ok := classifyLockCall(d2); ok {
								delete(held, lk(op.Class, op.Kind == "runlock"))
							}
						}
					}
					for _, g := range la.deferTargets(d) {
						old, known := la.entry[g]
						var nw lockSet
						if !known || top[g] {
							nw = held
							delete(top, g)
						} else {
							nw = intersect(old, held)
						}
						if !known || !equalSet(old, nw) {
							la.entry[g] = nw
							work = append(work, g)
						}
					}
					continue
				}
				call, ok := in.(*ssa.Call)
				if !ok {
					continue
				}
				for _, g := range la.calleeFns(call) {
					if g == f {
						continue
					}
					held := la.heldBefore(call)
					old, known := la.entry[g]
					var nw lockSet
					if !known || top[g] {
						nw = held
						delete(top, g)
					} else {
						nw = intersect(old, held)
					}
					if !known || !equalSet(old, nw) {
						la.entry[g] = nw
						work = append(work, g)
					}
				}
			}
		}
	}
	// final pass so that inMust reflects the final entry sets
	for _, f := range funcs {
		e, ok := la.entry[f]
		if !ok {
			e = lockSet{}
			la.entry[f] = e
		}
		la.analyse(f, e, true)
	}
}

func onlyCalledThroughCell(mc *ssa.MakeClosure, st *ssa.Store) bool {
	al, ok := st.Addr.(*ssa.Alloc)
	if !ok {
		return false
	}
	for _, f := range withClosures(al.Parent()) {
		for _, b := range f.Blocks {
			for _, in := range b.Instrs {
				u, ok := in.(*ssa.UnOp)
				if !ok || cellOf(u.X) != ssa.Value(al) {
					continue
				}
				for _, r := range *u.Referrers() {
					switch rr := r.(type) {
					case *ssa.Call:
						if rr.Call.Value != ssa.Value(u) {
							return false
						}
					case *ssa.DebugRef:
					default:
						return false
					}
				}
			}
		}
	}
	return true
}

func (la *lockAnalysis) goTargets(g *ssa.Go) []*ssa.Function {
	if mc, ok := g.Call.Value.(*ssa.MakeClosure); ok {
		return []*ssa.Function{mc.Fn.(*ssa.Function)}
	}
	if f := g.Call.StaticCallee(); f != nil && la.p.InP(f) && f.Blocks != nil {
		return []*ssa.Function{f}
	}
	return nil
}

// wrappers that return holding a lock on success (ownership handed to the caller)
var lockWrappers = map[string]map[string]string{
	"(*ls.DB).lockExec":         {"DB.execSem": "context-aware acquire helper: returns nil holding the executor semaphore; every caller defers Release"},
	"(*ls.Replica).lockSync":    {"Replica.syncSem": "context-aware acquire helper for the replica sync semaphore"},
	"(*ls.DB).snapshotPosition": {"DB.chkMu(R)": "hand-off: the checkpoint read lock is owned by the returned snapshotReadPosition and released by its close()"},
	"(*ls.DB).SnapshotReader":   {"DB.chkMu(R)": "hand-off: the returned reader owns the position; EOF or Close releases the lock (rule R1 hand-off chain)"},
	"(*ls.DB).Snapshot":         {"DB.chkMu(R)": "released by the deferred r.Close() (interface call; checked by the hand-off chain rule)"},
}

// functions that release a lock acquired elsewhere (ownership received)
var lockReleasers = map[string]string{
	"(*ls.snapshotReadPosition).close$1": "closeOnce body: releases the checkpoint read lock taken by snapshotPosition",
	"(*ls.snapshotReadPosition).close":   "releases the checkpoint read lock exactly once (sync.Once)",
	"(*ls.DB).snapshotReader$1":          "streaming goroutine owns the position: defers pos.close()",
	"(*ls.snapshotReadCloser).Close":     "closing the reader releases the position's lock",
}

// cycles finds the elementary cycles of the lock-order graph (as sorted node lists).
func (la *lockAnalysis) cycles() [][]string {
	var out [][]string
	seenCyc := map[string]bool{}
	var nodes []string
	for a := range la.order {
		nodes = append(nodes, a)
	}
	sort.Strings(nodes)
	var dfs func(start, cur string, path []string, onPath map[string]bool)
	dfs = func(start, cur string, path []string, onPath map[string]bool) {
		var next []string
		for b := range la.order[cur] {
			next = append(next, b)
		}
		sort.Strings(next)
		for _, b := range next {
			if b == start {
				cyc := append([]string(nil), path...)
				key := canonicalCycle(cyc)
				if !seenCyc[key] {
					seenCyc[key] = true
					out = append(out, cyc)
				}
				continue
			}
			if onPath[b] || b < start {
				continue
			}
			onPath[b] = true
			dfs(start, b, append(path, b), onPath)
			delete(onPath, b)
		}
	}
	for _, s := range nodes {
		dfs(s, s, []string{s}, map[string]bool{s: true})
	}
	return out
}

func canonicalCycle(c []string) string {
	s := append([]string(nil), c...)
	sort.Strings(s)
	return strings.Join(s, "→")
}

// lockRulesC02: hand-off of C02-R4.
func c02Locks(c *Ctx) {
	la := newLockAnalysis(c.P)
	la.interproc()
	requiredLocksets(c, la, "R4-lock-handoff")
}

func requiredLocksets(c *Ctx, la *lockAnalysis, rule string) {
	req := []struct {
		callee string
		locks  []string
		floor  int
		why    string
	}{
		{"(*ls.DB).execCheckpoint", []string{"DB.execSem", "DB.chkMu"}, 1, "a checkpoint runs only with the executor semaphore and the checkpoint write lock held"},
		{"(*ls.DB).sync", []string{"DB.execSem"}, 2, "a new L0 file is created only under the executor semaphore"},
		{"(*ls.DB).verifyAndSyncWithExecutor", []string{"DB.execSem"}, 4, "WAL verification and copy run only under the executor semaphore"},
		{"(*ls.DB).checkpointWithExecutor", []string{"DB.execSem"}, 3, "the checkpoint protocol runs only under the executor semaphore"},
		{"(*ls.DB).syncLocked", []string{"DB.execSem"}, 2, "syncLocked requires the executor semaphore"},
	}
	for _, r := range req {
		n := 0
		for _, f := range c.P.ProdFuncs() {
			if deadInProduction(c.P, f) {
				continue
			}
			for _, call := range callsTo(f, nameIs(r.callee)) {
				if _, isCall := call.(*ssa.Call); !isCall {
					continue
				}
				n++
				held := la.heldBefore(call)
				ok := true
				for _, l := range r.locks {
					if !held[l] {
						ok = false
					}
				}
				c.check(ok, rule, fmt.Sprintf("%s -> %s requires %v", fnName(f), r.callee, r.locks), c.pos(call), "must-held at the call site: "+held.String(), r.why+"; held here: "+held.String())
			}
		}
		c.floor(rule, n, r.floor, "production call sites of "+r.callee)
	}
	// chkMu.RLock in snapshotPosition is acquired with execSem held
	if fn := c.fn(rule, "(*ls.DB).snapshotPosition"); fn != nil {
		n := 0
		for _, call := range calls(fn) {
			if op, ok := classifyLockCall(call); ok && op.Class == "DB.chkMu" && op.Kind == "rlock" {
				n++
				held := la.heldBefore(call)
				c.check(held["DB.execSem"], rule, fnName(fn)+": chkMu.RLock is taken while the executor semaphore is held", c.pos(call), "must-held: "+held.String(), "the checkpoint read lock is taken after the executor semaphore was released: a checkpoint or sync can slip in between capturing the position and locking (snapshot content would not match the advertised position)")
				// and after the position was captured
				for _, p := range callsTo(fn, nameIs("(*ls.DB).Pos")) {
					c.check(dominates(p, call), rule, fnName(fn)+": position captured before the lock hand-off, under the same semaphore hold", c.pos(p), "db.Pos() dominates chkMu.RLock", "position captured after the lock")
					c.check(la.heldBefore(p)["DB.execSem"], rule, fnName(fn)+": db.Pos() read under the executor semaphore", c.pos(p), "held", "position read without the semaphore")
				}
			}
		}
		c.floor(rule, n, 1, "chkMu.RLock in snapshotPosition")
	}
	// (*DB).sync takes chkMu.R unless called from the checkpoint (which holds chkMu.W)
	if fn := c.fn(rule, "(*ls.DB).sync"); fn != nil {
		n := 0
		for _, call := range calls(fn) {
			if op, ok := classifyLockCall(call); ok && op.Class == "DB.chkMu" && op.Kind == "rlock" {
				n++
				c.requireGuard(rule, fn, Site{call, "chkMu.RLock"}, truthFact(vParam("checkpointing"), false, "!checkpointing"))
				// every WAL read happens after this point unless checkpointing
				for _, o := range callsTo(fn, nameIs("os.Open")) {
					c.requireAlts(rule, fn, Site{o, "open WAL for reading"}, []FP{truthFact(vParam("checkpointing"), true, "checkpointing (caller holds chkMu.W)"), truthFact(vParam("checkpointing"), false, "!checkpointing (chkMu.RLock taken above)")})
					c.check(dominates(lastInstr(call.Block()), o) || call.Block().Dominates(o.Block()) || blockOfIf(fn, vParam("checkpointing")).Dominates(o.Block()), rule, fnName(fn)+": WAL is opened after the checkpoint-lock decision", c.pos(o), "ordered", "WAL read before the checkpoint lock decision")
				}
			}
		}
		c.floor(rule, n, 1, "chkMu.RLock in (*DB).sync")
		// callers passing checkpointing=true hold chkMu.W
		for _, f := range c.P.ProdFuncs() {
			if deadInProduction(c.P, f) {
				continue
			}
			for _, call := range callsTo(f, nameIs("(*ls.DB).sync", "(*ls.DB).verifyAndSyncWithExecutor")) {
				a := namedArg(call, "checkpointing")
				if a == nil || !vConstBool(true)(a) {
					if a != nil && vParam("checkpointing")(a) {
						continue // forwarded
					}
					continue
				}
				held := la.heldBefore(call)
				c.check(held["DB.chkMu"], rule, fnName(f)+": passes checkpointing=true only while holding chkMu (write)", c.pos(call), "held: "+held.String(), "sync is told that the caller holds the checkpoint lock although it does not: a concurrent checkpoint could truncate the WAL under the copy")
			}
			// converse: whoever may hold chkMu must pass checkpointing=true (otherwise sync would RLock a write-locked mutex: self-deadlock)
			for _, call := range callsTo(f, nameIs("(*ls.DB).sync", "(*ls.DB).verifyAndSyncWithExecutor")) {
				if _, isCall := call.(*ssa.Call); !isCall {
					continue
				}
				if !la.inMayBefore(call).hasClass("DB.chkMu") {
					continue
				}
				a := namedArg(call, "checkpointing")
				ok := a != nil && (vConstBool(true)(a) && isConst(a) || (vParam("checkpointing")(a) && isParam(a)))
				c.check(ok, rule, fnName(f)+": a caller that may hold chkMu passes checkpointing=true", c.pos(call), "constant true (or forwarded flag)", "sync would try to read-lock the checkpoint mutex its caller holds for writing (deadlock)")
			}
		}
	}
}

func blockOfIf(fn *ssa.Function, cond VM) *ssa.BasicBlock {
	for _, b := range fn.Blocks {
		if ifi, ok := lastInstr(b).(*ssa.If); ok {
			f := edgeFact(ifi, 0)
			if f.Op == 0 && cond(f.L) {
				return b
			}
		}
	}
	return fn.Blocks[0]
}

// deadInProduction: unexported function without production callers (test-only wrapper).
func deadInProduction(p *Prog, f *ssa.Function) bool {
	root := f
	for root.Parent() != nil {
		root = root.Parent()
	}
	if root.Object() == nil || root.Object().Exported() {
		return false
	}
	if _, ok := deadCache[p]; !ok {
		called := map[*ssa.Function]bool{}
		for _, g := range p.ProdFuncs() {
			for _, b := range g.Blocks {
				for _, in := range b.Instrs {
					switch x := in.(type) {
					case ssa.CallInstruction:
						if cal := x.Common().StaticCallee(); cal != nil {
							called[cal] = true
						}
						for _, a := range x.Common().Args {
							if fn, ok := a.(*ssa.Function); ok {
								called[fn] = true
							}
						}
					case *ssa.MakeClosure:
					case *ssa.Store:
						if fn, ok := x.Val.(*ssa.Function); ok {
							called[fn] = true
						}
					}
					// method values / function values
					var rands [8]*ssa.Value
					for _, op := range in.Operands(rands[:0]) {
						if op == nil || *op == nil {
							continue
						}
						if fn, ok := (*op).(*ssa.Function); ok {
							called[fn] = true
						}
						if mc, ok := (*op).(*ssa.MakeClosure); ok {
							if fn, ok := mc.Fn.(*ssa.Function); ok && fn.Synthetic != "" {
								called[fn] = true
							}
						}
					}
				}
			}
		}
		deadCache[p] = called
	}
	// methods may be reached via bound method closures ($bound) or interfaces
	if deadCache[p][root] {
		return false
	}
	if root.Signature.Recv() != nil {
		// check for a bound-method wrapper reference
		for g := range deadCache[p] {
			if g.Synthetic != "" && strings.HasPrefix(g.Name(), root.Name()+"$") {
				return false
			}
		}
	}
	return true
}

var deadCache = map[*Prog]map[*ssa.Function]bool{}
