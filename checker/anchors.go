package main

// anchors.json: name -> fingerprint (receiver|signature) of every production
// function of the reference tree.  It is data for rename resolution only: a
// function that was merely renamed (unique fingerprint match) keeps its old
// name inside the checker, so no rule fires on a pure rename.  Regenerate with
// `lsverify anchors > checker/anchors.json` after a deliberate change.

import (
	_ "embed"
	"encoding/json"
	"flag"
	"fmt"
	"go/types"
	"os"
	"sort"

	"golang.org/x/tools/go/ssa"
)

//go:embed anchors.json
var anchorsJSON []byte

// anchor_params.json: name -> parameter names (receiver first) on the reference
// tree, so that rules can keep naming parameters after a parameter is renamed.
//
//go:embed anchor_params.json
var anchorParamsJSON []byte

var refParams map[string][]string

// anchor_callers.json: name -> production functions that call it statically on the
// reference tree (closures attributed to their enclosing function).  Used to recognise a
// function that was renamed *and* re-parameterised: same callers, same results.
//
//go:embed anchor_callers.json
var anchorCallersJSON []byte

func loadAnchorCallers() map[string][]string {
	m := map[string][]string{}
	if len(anchorCallersJSON) > 0 {
		_ = json.Unmarshal(anchorCallersJSON, &m)
	}
	return m
}

// anchor_fields.json: the "Type.field" names of the struct types declared in the production
// packages of the reference tree.  A field that is not listed is a refactoring artefact
// (a parameter promoted to receiver state): a read of it resolves to what is stored into it.
//
//go:embed anchor_fields.json
var anchorFieldsJSON []byte

var refFields map[string]bool

func loadAnchorFields() map[string]bool {
	m := map[string]bool{}
	var l []string
	if len(anchorFieldsJSON) > 0 {
		_ = json.Unmarshal(anchorFieldsJSON, &l)
	}
	for _, f := range l {
		m[f] = true
	}
	return m
}

// structFields lists Type.field for every named struct type of the production packages.
func structFields(p *Prog) []string {
	set := map[string]bool{}
	for _, pk := range p.SSA.AllPackages() {
		rel, ok := relPkg(pk.Pkg)
		if !ok || !prodPkgs[rel] {
			continue
		}
		sc := pk.Pkg.Scope()
		for _, nm := range sc.Names() {
			tn, ok := sc.Lookup(nm).(*types.TypeName)
			if !ok {
				continue
			}
			st, ok := tn.Type().Underlying().(*types.Struct)
			if !ok {
				continue
			}
			for i := 0; i < st.NumFields(); i++ {
				set[tn.Name()+"."+st.Field(i).Name()] = true
			}
		}
	}
	var out []string
	for f := range set {
		out = append(out, f)
	}
	sort.Strings(out)
	return out
}

// staticCallers computes the same table for the loaded program.
func staticCallers(p *Prog) map[string][]string {
	set := map[string]map[string]bool{}
	for fn := range p.allFuncs {
		if !p.InP(fn) || fn.Blocks == nil {
			continue
		}
		root := fn
		for root.Parent() != nil {
			root = root.Parent()
		}
		from := shortName(root.String())
		for _, b := range fn.Blocks {
			for _, in := range b.Instrs {
				var callee *ssa.Function
				switch x := in.(type) {
				case ssa.CallInstruction:
					callee = x.Common().StaticCallee()
				case *ssa.MakeClosure:
					continue
				default:
					// a function used as a value (callback, method value)
					for _, op := range in.Operands(nil) {
						if f, ok := (*op).(*ssa.Function); ok && f.Parent() == nil {
							callee = f
						}
					}
				}
				if callee == nil || callee.Parent() != nil || !p.InP(callee) {
					continue
				}
				to := shortName(callee.String())
				if set[to] == nil {
					set[to] = map[string]bool{}
				}
				set[to][from] = true
			}
		}
	}
	out := map[string][]string{}
	for to, froms := range set {
		for f := range froms {
			out[to] = append(out[to], f)
		}
		sort.Strings(out[to])
	}
	return out
}

func loadAnchorParams() map[string][]string {
	m := map[string][]string{}
	if len(anchorParamsJSON) > 0 {
		_ = json.Unmarshal(anchorParamsJSON, &m)
	}
	return m
}

func loadAnchors() map[string]string {
	m := map[string]string{}
	if len(anchorsJSON) == 0 {
		return m
	}
	_ = json.Unmarshal(anchorsJSON, &m)
	return m
}

func init() {
	extraCmds["anchors"] = func(args []string) int {
		fs := flag.NewFlagSet("anchors", flag.ExitOnError)
		repo := fs.String("repo", "/repo", "")
		params := fs.Bool("params", false, "print the parameter-name table instead")
		callers := fs.Bool("callers", false, "print the static-caller table instead")
		fields := fs.Bool("fields", false, "print the struct-field table instead")
		fs.Parse(args)
		saved := anchorsJSON
		anchorsJSON = nil
		p, err := Load(LoadConfig{Dir: *repo, Tags: "vfs"})
		anchorsJSON = saved
		if err != nil {
			fmt.Fprintln(os.Stderr, err)
			return 2
		}
		if *fields {
			b, _ := json.MarshalIndent(structFields(p), "", " ")
			fmt.Println(string(b))
			return 0
		}
		if *callers {
			b, _ := json.MarshalIndent(staticCallers(p), "", " ")
			fmt.Println(string(b))
			return 0
		}
		if *params {
			pm := map[string][]string{}
			for name, fn := range p.funcs {
				if p.InP(fn) && fn.Parent() == nil {
					var ns []string
					for _, prm := range fn.Params {
						ns = append(ns, prm.Name())
					}
					pm[name] = ns
				}
			}
			b, _ := json.MarshalIndent(pm, "", " ")
			fmt.Println(string(b))
			return 0
		}
		m := map[string]string{}
		for name, fn := range p.funcs {
			if p.InP(fn) {
				m[name] = funcSig(fn)
			}
		}
		names := make([]string, 0, len(m))
		for n := range m {
			names = append(names, n)
		}
		sort.Strings(names)
		fmt.Println("{")
		for i, n := range names {
			kb, _ := json.Marshal(n)
			vb, _ := json.Marshal(m[n])
			comma := ","
			if i == len(names)-1 {
				comma = ""
			}
			fmt.Printf(" %s: %s%s\n", kb, vb, comma)
		}
		fmt.Println("}")
		return 0
	}
}
