package main

// Checkpoint protocol ordering (C01, also relevant to C02/C13).

import (
	"go/token"
	"strings"

	"golang.org/x/tools/go/ssa"
)

func isLockInsert(call ssa.CallInstruction) bool {
	if methodName(call) != "ExecContext" {
		return false
	}
	// (*sql.Tx).ExecContext(tx, ctx, query, args...) or the same method through a small
	// interface the transaction is passed as (receiver not among the arguments)
	qi := 2
	if call.Common().IsInvoke() {
		qi = 1
	}
	if len(call.Common().Args) <= qi {
		return false
	}
	s, ok := constString(call.Common().Args[qi])
	return ok && strings.Contains(s, "_litestream_lock") && strings.HasPrefix(strings.ToUpper(strings.TrimSpace(s)), "INSERT")
}

// lockInsertRecv is the transaction value the insert is executed on.
func lockInsertRecv(call ssa.CallInstruction) ssa.Value {
	if call.Common().IsInvoke() {
		return call.Common().Value
	}
	return call.Common().Args[0]
}

// lockInsertErr / lockInsertTx: the error result and the transaction of a write-lock
// insert, which is either the ExecContext call itself or a call to an extracted helper
// that performs it on the transaction it is given.
func lockInsertErr(ins ssa.CallInstruction) ssa.Value {
	if isLockInsert(ins) {
		return resultOf(ins, 1)
	}
	if i := errResultIndex(ins.Common().Signature()); i >= 0 {
		return resultOf(ins, i)
	}
	return nil
}

func lockInsertTx(ins ssa.CallInstruction) ssa.Value {
	if isLockInsert(ins) {
		return lockInsertRecv(ins)
	}
	h := ins.Common().StaticCallee()
	if h == nil {
		return nil
	}
	for _, k := range calls(h) {
		if isLockInsert(k) {
			for j, p := range h.Params {
				for _, o := range origins(lockInsertRecv(k)) {
					if o == ssa.Value(p) && j < len(ins.Common().Args) {
						return ins.Common().Args[j]
					}
				}
			}
		}
	}
	return nil
}

// helperLockInsert: call is a call to a new helper that performs a write-lock insert.
func helperLockInsert(call ssa.CallInstruction) bool {
	h := call.Common().StaticCallee()
	if !isNewHelper(h) {
		return false
	}
	for _, k := range calls(h) {
		if isLockInsert(k) {
			return true
		}
	}
	return false
}

func checkpointProtocolRules(c *Ctx) {
	const rule = "R8-checkpoint-protocol"
	fn := c.fn(rule, "(*ls.DB).checkpointWithExecutor")
	if fn == nil {
		return
	}
	name := fnName(fn)
	var exec ssa.CallInstruction
	var vs, inserts, syncs, bumps []ssa.CallInstruction
	for _, call := range calls(fn) {
		if _, isCall := call.(*ssa.Call); !isCall {
			continue
		}
		switch calleeName(call) {
		case "(*ls.DB).execCheckpoint":
			exec = call
		case "(*ls.DB).verifyAndSyncWithExecutor":
			vs = append(vs, call)
		case "(*ls.DB).sync":
			syncs = append(syncs, call)
		case "(*ls.DB).bumpLitestreamSeq":
			bumps = append(bumps, call)
		}
		if isLockInsert(call) || helperLockInsert(call) {
			inserts = append(inserts, call)
		}
	}
	if exec == nil {
		c.fail(rule, name+": execCheckpoint call present", c.P.Pos(fn.Pos()), "missing")
		return
	}
	c.floor(rule, len(vs), 3, "verifyAndSyncWithExecutor calls")
	c.floor(rule, len(inserts), 2, "write-lock inserts (_litestream_lock)")
	mode := vParam("mode")
	passive := cmpFact(mode, token.EQL, vConstStr("PASSIVE"), "mode == PASSIVE")
	notPassive := cmpFact(mode, token.NEQ, vConstStr("PASSIVE"), "mode != PASSIVE")

	// (a) copy-before dominates the checkpoint
	okA := false
	for _, v := range vs {
		if dominates(v, exec) {
			if g, n := guardedBy(exec, cmpFact(vIs(resultOf(v, 1)), token.EQL, vNil(), "")); n > 0 && g {
				okA = true
			}
		}
	}
	c.check(okA, rule, name+": the WAL is copied (and the copy succeeded) before the checkpoint is issued", c.pos(exec), "a successful verifyAndSync dominates execCheckpoint", "the checkpoint can run without a prior successful copy of the WAL")

	// (b) PASSIVE: write-lock barrier, then seal copy, then checkpoint
	var barrier ssa.CallInstruction
	for _, ins := range inserts {
		if g, n := guardedBy(ins, passive); n > 0 && g && dominatesOrReaches(fn, ins, exec) {
			barrier = ins
		}
	}
	if barrier == nil {
		c.fail(rule, name+": PASSIVE checkpoints take the write-lock barrier before the checkpoint", c.pos(exec), "no _litestream_lock insert guarded by mode == PASSIVE precedes execCheckpoint")
	} else {
		c.requireAlts(rule, fn, Site{exec, "execCheckpoint"}, []FP{notPassive, cmpFact(vIs(lockInsertErr(barrier)), token.EQL, vNil(), "barrier insert err == nil")})
		sealed := false
		for _, v := range vs {
			if dominates(barrier, v) && reachable(fn, v.Block(), nil)[exec.Block()] {
				if g, n := guardedBy(exec, notPassive, cmpFact(vIs(resultOf(v, 1)), token.EQL, vNil(), "")); n > 0 && g {
					sealed = true
				}
			}
		}
		c.check(sealed, rule, name+": PASSIVE: the WAL is copied again under the write-lock barrier (seal) before the checkpoint", c.pos(barrier),
			"a successful verifyAndSync lies between the barrier insert and execCheckpoint", "the seal copy is not taken under the write lock: a commit between the copy and the barrier is checkpointed and lost when the WAL restarts")
		// the barrier is released only after the checkpoint
		for _, call := range calls(fn) {
			if _, isCall := call.(*ssa.Call); !isCall || calleeName(call) != "ls.rollback" {
				continue
			}
			if sameTx(call.Common().Args[0], lockInsertTx(barrier)) {
				c.check(dominates(exec, call), rule, name+": the barrier transaction is rolled back only after the checkpoint ran", c.pos(call), "execCheckpoint dominates rollback(barrierTx)", "the write lock is released before the checkpoint")
			}
		}
		// barrier tx begins on the source handle
	}

	// (d) the sequence bump follows a successful checkpoint
	for _, b := range bumps {
		c.check(dominates(exec, b), rule, name+": _litestream_seq is bumped after the checkpoint", c.pos(b), "ordered", "bump before checkpoint")
		c.requireGuard(rule, fn, Site{b, "bumpLitestreamSeq"}, cmpFact(vIs(resultOf(exec, 1)), token.EQL, vNil(), "execCheckpoint err == nil"))
	}

	// (e)/(h) result mapping
	hdrEq := truthFact(vCall("bytes.Equal", nil, nil), true, "WAL header unchanged")
	for _, r := range successReturns(fn) {
		if len(r.Results) == 0 {
			continue
		}
		restarted := r.Results[0]
		if !reachable(fn, exec.Block(), nil)[r.Block()] || r.Block() == exec.Block() {
			continue
		}
		if vConstBool(true)(restarted) && isConst(restarted) {
			// a restarted WAL is followed by a successful copy or boundary snapshot
			ok := false
			for _, x := range append(append([]ssa.CallInstruction{}, vs...), syncs...) {
				if dominates(exec, x) && dominates(x, r) {
					e := resultOf(x, 1)
					if g, n := guardedBy(r, cmpFact(vIs(e), token.EQL, vNil(), "")); n > 0 && g {
						ok = true
					}
				}
			}
			c.check(ok, rule, name+": 'WAL restarted' is reported only after the new WAL was copied (or a boundary snapshot taken) successfully", c.pos(r), "dominated by a successful post-checkpoint sync", "a restart is acknowledged without copying what was written around the checkpoint")
		} else if vConstBool(false)(restarted) && isConst(restarted) {
			c.requireGuard(rule, fn, Site{r, "return false (no restart) after the checkpoint"}, hdrEq)
		}
	}

	// (f) TRUNCATE always takes the boundary snapshot; other modes only when no frames slipped in
	for _, v := range vs {
		if !dominates(exec, v) {
			continue
		}
		if g, n := guardedBy(v, passive); n > 0 && g {
			continue
		}
		c.requireGuard(rule, fn, Site{v, "incremental copy after a non-PASSIVE checkpoint"}, cmpFact(mode, token.NEQ, vConstStr("TRUNCATE"), "mode != TRUNCATE"))
		c.requireGuard(rule, fn, Site{v, "incremental copy after a non-PASSIVE checkpoint"}, cmpFact(vResult(nameIs("(*ls.DB).execCheckpoint"), 0), token.LEQ, vAny(), "walFrameN <= preCheckpointFrameN"))
	}

	// (g) boundary snapshot under the write lock, from the new WAL header
	for _, s := range syncs {
		var lock ssa.CallInstruction
		for _, ins := range inserts {
			if dominates(ins, s) && ins != barrier {
				lock = ins
			}
		}
		c.check(lock != nil, rule, name+": the boundary snapshot is taken under the write lock", c.pos(s), "a _litestream_lock insert dominates it", "boundary snapshot without the write lock")
		if lock != nil {
			c.requireGuard(rule, fn, Site{s, "boundary snapshot"}, cmpFact(vIs(lockInsertErr(lock)), token.EQL, vNil(), "lock insert err == nil"))
			for _, call := range calls(fn) {
				if _, isCall := call.(*ssa.Call); isCall && calleeName(call) == "ls.rollback" && sameTx(call.Common().Args[0], lockInsertTx(lock)) {
					c.check(dominates(s, call), rule, name+": the write lock is released after the boundary snapshot", c.pos(call), "ordered", "lock released before the snapshot")
				}
			}
		}
		f := compositeFields(namedArg(s, "info"))
		if f == nil {
			for _, o := range origins(namedArg(s, "info")) {
				if ff := compositeFields(o); ff != nil {
					f = ff
				}
			}
		}
		okI := f != nil && vConstBool(true)(f["snapshotting"]) && vConstInt(32)(f["offset"]) && vU32At(nil, 16)(f["salt1"]) && vU32At(nil, 20)(f["salt2"])
		c.check(okI, rule, name+": boundary snapshot = {snapshotting: true, offset: WALHeaderSize, salts of the new WAL header}", c.pos(s), "literal matches", "boundary snapshot parameters are not a full snapshot from the new WAL header")
		a := namedArg(s, "checkpointing")
		c.check(a != nil && vConstBool(true)(a), rule, name+": boundary snapshot runs with checkpointing=true (chkMu already held)", c.pos(s), "true", "would self-deadlock on chkMu")
	}

	// execCheckpoint: read lock released before and re-acquired after the PRAGMA
	if ec := c.fn(rule, "(*ls.DB).execCheckpoint"); ec != nil {
		var rel, acq, q ssa.CallInstruction
		for _, call := range calls(ec) {
			if _, isCall := call.(*ssa.Call); !isCall {
				continue
			}
			switch calleeName(call) {
			case "(*ls.DB).releaseReadLock":
				rel = call
			case "(*ls.DB).acquireReadLock":
				acq = call
			case "(*database/sql.DB).QueryRowContext":
				q = call
			}
		}
		ok := rel != nil && acq != nil && q != nil && dominates(rel, q) && dominates(q, acq)
		c.check(ok, rule, fnName(ec)+": release read lock → PRAGMA wal_checkpoint → re-acquire read lock", c.P.Pos(ec.Pos()), "ordered", "read lock handling around the checkpoint changed")
		if ok {
			for _, r := range successReturns(ec) {
				if !reachable(ec, q.Block(), nil)[r.Block()] {
					continue
				}
				c.requireGuard(rule, ec, Site{r, "success return"}, cmpFact(vIs(resultOf(acq, 0)), token.EQL, vNil(), "re-acquire err == nil"))
			}
			// deferred re-acquire for early returns
			nd := 0
			for _, b := range ec.Blocks {
				for _, in := range b.Instrs {
					if d, isD := in.(*ssa.Defer); isD {
						if mc, isMC := d.Call.Value.(*ssa.MakeClosure); isMC {
							if len(callsTo(mc.Fn.(*ssa.Function), nameIs("(*ls.DB).acquireReadLock"))) > 0 && dominates(rel, d) {
								nd++
							}
						}
					}
				}
			}
			c.check(nd >= 1, rule, fnName(ec)+": a deferred re-acquire covers the error exits", c.P.Pos(ec.Pos()), "found", "an error during the checkpoint leaves the database without litestream's read lock (other processes could checkpoint unseen)")
		}
	}
}

func dominatesOrReaches(fn *ssa.Function, a, b ssa.Instruction) bool {
	return dominates(a, b) || reachable(fn, a.Block(), nil)[b.Block()]
}

func sameTx(a, b ssa.Value) bool {
	if a == b {
		return true
	}
	for _, x := range origins(a) {
		for _, y := range origins(b) {
			if x == y {
				if k, isK := x.(*ssa.Const); isK && k.Value == nil {
					continue
				}
				return true
			}
		}
	}
	return false
}

// c05Init: DB.init is all-or-nothing (F8).
func c05Init(c *Ctx) {
	const rule = "R7-init-all-or-nothing"
	fn := c.fn(rule, "(*ls.DB).init")
	if fn == nil {
		return
	}
	name := fnName(fn)
	// the assignment of db.db
	var assign *ssa.Store
	for _, st := range storesToField(fn, "DB.db") {
		if st.Block().Parent() == fn && !isNilConst(st.Val) {
			assign = st
		}
	}
	if assign == nil {
		c.fail(rule, name+": assigns db.db", c.P.Pos(fn.Pos()), "not found")
		return
	}
	// the deferred cleanup: closure storing nil to DB.db under err != nil
	var cleanup *ssa.Defer
	for _, b := range fn.Blocks {
		for _, in := range b.Instrs {
			d, ok := in.(*ssa.Defer)
			if !ok {
				continue
			}
			mc, ok := d.Call.Value.(*ssa.MakeClosure)
			if !ok {
				continue
			}
			cl := mc.Fn.(*ssa.Function)
			for _, st := range storesToField(cl, "DB.db") {
				if isNilConst(st.Val) {
					cleanup = d
				}
			}
		}
	}
	if cleanup == nil {
		c.fail(rule, name+": deferred cleanup resets db.db on failure", c.P.Pos(fn.Pos()), "no deferred closure clears db.db")
		return
	}
	// every failure return reachable after the assignment (with sql.Open successful) is dominated by the defer
	bad := ""
	for _, ret := range returns(fn) {
		if canSucceed(ret) {
			continue
		}
		if !reachable(fn, assign.Block(), nil)[ret.Block()] {
			continue
		}
		// returns on the sql.Open failure edge itself are fine (db.db is nil then)
		if g, n := guardedBy(ret, cmpFact(vResult(nameIs("database/sql.Open"), 1), token.NEQ, vNil(), "")); n > 0 && g {
			continue
		}
		if !dominates(cleanup, ret) {
			bad = c.pos(ret)
		}
	}
	c.check(bad == "", rule, name+": every failure exit after db.db is assigned is covered by the deferred cleanup", c.pos(cleanup), "the cleanup defer dominates all later failure returns",
		"failure return at "+bad+" leaves db.db set: init is then skipped forever ('already initialised') and every sync fails until restart")
	// the early "already initialised" return
	for _, ret := range successReturns(fn) {
		if ret.Block() == fn.Blocks[0] || fn.Blocks[0].Dominates(ret.Block()) && len(ret.Block().Preds) == 1 && ret.Block().Preds[0] == fn.Blocks[0] {
			c.requireGuard(rule, fn, Site{ret, "early return"}, cmpFact(vFieldLoad("DB.db", nil), token.NEQ, vNil(), "db.db != nil"))
			break
		}
	}
}
