package main

// E2 — file publication typestate: sync-before-rename, dirsync-before-success,
// tmp staging, error discipline around publication.

import (
	"fmt"
	"go/token"
	"go/types"
	"strings"

	"golang.org/x/tools/go/ssa"
)

// exprEq is structural equality of two SSA expressions (same value, or the
// same pure expression over equal operands).
func exprEq(a, b ssa.Value) bool { return exprEqD(a, b, 0) }

func exprEqD(a, b ssa.Value, d int) bool {
	if a == b {
		return true
	}
	if a == nil || b == nil || d > 8 {
		return false
	}
	// look through single-origin cells/phis
	oa, ob := origins(a), origins(b)
	if len(oa) == 1 && len(ob) == 1 && (oa[0] != a || ob[0] != b) {
		return exprEqD(oa[0], ob[0], d+1)
	}
	switch x := a.(type) {
	case *ssa.Const:
		y, ok := b.(*ssa.Const)
		if !ok {
			return false
		}
		if x.Value == nil || y.Value == nil {
			return x.Value == nil && y.Value == nil
		}
		return x.Value.ExactString() == y.Value.ExactString()
	case *ssa.BinOp:
		y, ok := b.(*ssa.BinOp)
		return ok && x.Op == y.Op && exprEqD(x.X, y.X, d+1) && exprEqD(x.Y, y.Y, d+1)
	case *ssa.Call:
		y, ok := b.(*ssa.Call)
		if !ok || calleeName(x) == "" || calleeName(x) != calleeName(y) || len(x.Call.Args) != len(y.Call.Args) {
			return false
		}
		if x.Call.IsInvoke() && !exprEqD(x.Call.Value, y.Call.Value, d+1) {
			return false
		}
		if !pureCallee(calleeName(x)) {
			return false
		}
		for i := range x.Call.Args {
			if !exprEqD(x.Call.Args[i], y.Call.Args[i], d+1) {
				return false
			}
		}
		return true
	case *ssa.UnOp:
		y, ok := b.(*ssa.UnOp)
		return ok && x.Op == y.Op && exprEqD(x.X, y.X, d+1)
	case *ssa.FieldAddr:
		y, ok := b.(*ssa.FieldAddr)
		return ok && x.Field == y.Field && exprEqD(x.X, y.X, d+1)
	case *ssa.Field:
		y, ok := b.(*ssa.Field)
		return ok && x.Field == y.Field && exprEqD(x.X, y.X, d+1)
	}
	return false
}

// pureCallee lists path-building functions whose results depend only on their arguments.
func pureCallee(n string) bool {
	switch n {
	case "path/filepath.Dir", "path/filepath.Join", "path/filepath.Base", "path/filepath.FromSlash", "path.Join", "ls.TXIDPath",
		"(*ls.DB).LTXPath", "(*ls.DB).LTXLevelDir", "(*ls.DB).LTXDir", "(*ls.Hydrator).metaPath", "(*ls/file.ReplicaClient).LTXFilePath",
		"ls.LTXFilePath", "ls.LTXLevelDir", "ls.LTXDir", "ltx.FormatFilename", "(*os.File).Name", "(*ls.DB).WALPath", "(*ls.DB).Path", "(*ls.DB).MetaPath":
		return true
	}
	return false
}

// methodName returns the method or function name of a call.
func methodName(c ssa.CallInstruction) string {
	cc := c.Common()
	if cc.IsInvoke() {
		return cc.Method.Name()
	}
	if f := cc.StaticCallee(); f != nil {
		return f.Name()
	}
	return ""
}

// recvOf returns the receiver value of a method call (invoke or static), or nil.
func recvOf(c ssa.CallInstruction) ssa.Value {
	cc := c.Common()
	if cc.IsInvoke() {
		return cc.Value
	}
	if f := cc.StaticCallee(); f != nil && f.Signature.Recv() != nil && len(cc.Args) > 0 {
		return cc.Args[0]
	}
	return nil
}

// openerKind classifies a call that creates/opens a file for writing.  It
// returns the path argument and whether the open can create or truncate.
func openerInfo(c ssa.CallInstruction) (path ssa.Value, creates bool, ok bool) {
	a := c.Common().Args
	switch calleeName(c) {
	case "os.Create":
		return a[0], true, true
	case "ls/internal.CreateFile":
		return a[0], true, true
	case "os.WriteFile":
		return a[0], true, true
	case "os.OpenFile", "slot:DB.openLTXFile", "ls.defaultOpenLTXFile":
		fl, okf := constInt(a[1])
		if !okf {
			return a[0], true, true // unknown flags: assume it can create
		}
		oWronly, oRdwr, _, oCreate, _, oTrunc := osOpenFlags()
		cr := fl&oCreate != 0 || fl&oTrunc != 0
		wr := fl&oWronly != 0 || fl&oRdwr != 0
		if !wr && !cr {
			return nil, false, false
		}
		return a[0], cr, true
	case "os.CreateTemp":
		return nil, true, true
	}
	return nil, false, false
}

var nonWritingMethods = map[string]bool{"Close": true, "Stat": true, "Name": true, "Fd": true, "Chown": true, "Seek": true, "Read": true, "ReadAt": true, "Sync": true, "Chmod": true}

// fileStates computes, for file handle h in fn, the must-state before every
// instruction: 0 unopened, 1 clean (synced, no later write), 2 dirty.
type fileTracker struct {
	fn      *ssa.Function
	isH     func(ssa.Value) bool
	derived map[ssa.Value]bool
	extra   func(in ssa.Instruction) int // optional extra events: 0 none, 1 clean, 2 dirty
}

func newHandleTracker(fn *ssa.Function, h ssa.Value) *fileTracker {
	t := &fileTracker{fn: fn, derived: map[ssa.Value]bool{}}
	t.isH = func(v ssa.Value) bool {
		if v == h {
			return true
		}
		for _, o := range origins(v) {
			if o == h {
				return true
			}
		}
		return false
	}
	// derived writers: results of calls that receive h (or a derived value)
	for changed := true; changed; {
		changed = false
		for _, b := range fn.Blocks {
			for _, in := range b.Instrs {
				call, ok := in.(*ssa.Call)
				if !ok {
					continue
				}
				if rv := recvOf(call); rv != nil && t.isH(rv) && nonWritingMethods[methodName(call)] {
					continue
				}
				uses := false
				for _, a := range call.Call.Args {
					if t.isH(a) || t.isDerived(a) {
						uses = true
					}
				}
				if call.Call.IsInvoke() && (t.isH(call.Call.Value) || t.isDerived(call.Call.Value)) {
					uses = true
				}
				if !uses {
					continue
				}
				mark := func(v ssa.Value) {
					if v == nil || isErrorType(v.Type()) || t.derived[v] {
						return
					}
					switch v.Type().Underlying().(type) {
					case *types.Pointer, *types.Interface:
						t.derived[v] = true
						changed = true
					}
				}
				if call.Call.Signature().Results().Len() == 1 {
					mark(call)
				} else {
					for _, r := range *call.Referrers() {
						if ex, ok := r.(*ssa.Extract); ok {
							mark(ex)
						}
					}
				}
			}
		}
	}
	return t
}

func (t *fileTracker) isDerived(v ssa.Value) bool {
	if t.derived[v] {
		return true
	}
	for _, o := range origins(v) {
		if t.derived[o] {
			return true
		}
	}
	return false
}

// event classifies one instruction: 0 none, 1 sync (clean), 2 write/open (dirty).
func (t *fileTracker) event(in ssa.Instruction) int {
	if t.extra != nil {
		if e := t.extra(in); e != 0 {
			return e
		}
	}
	call, ok := in.(*ssa.Call)
	if !ok {
		return 0
	}
	if ssa.Value(call) != nil && t.isHExact(call) {
		return 2 // the opener itself
	}
	rv := recvOf(call)
	if rv != nil && t.isH(rv) {
		m := methodName(call)
		if m == "Sync" {
			return 1
		}
		if nonWritingMethods[m] {
			return 0
		}
		return 2
	}
	for i, a := range call.Call.Args {
		if t.isH(a) || t.isDerived(a) {
			// the handle is handed to an extracted helper: use the helper's own effect on it
			if g := call.Call.StaticCallee(); isNewHelper(g) && t.isH(a) && i < len(g.Params) {
				if e, ok := helperHandleEffect(g, i); ok {
					return e
				}
			}
			return 2
		}
	}
	if call.Call.IsInvoke() && t.isDerived(call.Call.Value) {
		return 2
	}
	return 0
}

func (t *fileTracker) isHExact(call *ssa.Call) bool {
	// opener: h is result 0 of this call
	if t.isH(call) {
		return true
	}
	for _, r := range *call.Referrers() {
		if ex, ok := r.(*ssa.Extract); ok && ex.Index == 0 && t.isH(ex) {
			return true
		}
	}
	return false
}

// stateBefore returns the must-state just before instruction at.
func (t *fileTracker) stateBefore(at ssa.Instruction) int {
	fn := t.fn
	in := map[*ssa.BasicBlock]int{}
	out := map[*ssa.BasicBlock]int{}
	transfer := func(b *ssa.BasicBlock, s int, stop ssa.Instruction) int {
		for _, x := range b.Instrs {
			if x == stop {
				return s
			}
			switch t.event(x) {
			case 1:
				if s != 0 {
					s = 1
				}
			case 2:
				s = 2
			}
		}
		return s
	}
	for changed := true; changed; {
		changed = false
		for _, b := range fn.Blocks {
			s := 0
			for _, p := range b.Preds {
				if o, ok := out[p]; ok && o > s {
					s = o
				}
			}
			if in[b] != s {
				in[b] = s
				changed = true
			}
			o := transfer(b, s, nil)
			if out[b] != o {
				out[b] = o
				changed = true
			}
		}
	}
	return transfer(at.Block(), in[at.Block()], at)
}

// nilEdges returns the branch edges on which the error result of call is nil.
func nilEdges(fn *ssa.Function, call ssa.CallInstruction) []Edge {
	idx := errResultIndex(call.Common().Signature())
	if idx < 0 {
		return nil
	}
	e := resultOf(call, idx)
	if e == nil {
		return nil
	}
	return factEdges(fn, cmpFact(vMust(e), token.EQL, vNil(), ""))
}

// vMust matches values that are definitely w: w itself or a value whose only
// origin is w.
func vMust(w ssa.Value) VM {
	return func(v ssa.Value) bool {
		if v == w {
			return true
		}
		os := origins(v)
		return len(os) == 1 && os[0] == w
	}
}

// failStopSimple: after a failure of call, no success return of fn is
// reachable (path-insensitive: the nil edges of the tests on its error are
// removed).  A return that returns the call's own error is fine.
func failStopSimple(fn *ssa.Function, call ssa.CallInstruction) (ok bool, why string, witness *ssa.Return) {
	idx := errResultIndex(call.Common().Signature())
	if idx < 0 {
		return true, "no error result", nil
	}
	e := resultOf(call, idx)
	if e == nil {
		return false, "error result is discarded", nil
	}
	cut := nilEdges(fn, call)
	blk := call.Block()
	r := reachable(fn, blk, cut)
	for _, ret := range returns(fn) {
		if !r[ret.Block()] {
			continue
		}
		if ret.Block() == blk && instrIndex(ret) < instrIndex(call) {
			continue
		}
		op := errOperand(ret)
		if op == nil {
			continue
		}
		if op == e {
			continue // the call's own error is what is returned
		}
		fine := true
		for _, o := range errOrigins(op) {
			if o == e || nonNilMaker(o) {
				continue
			}
			if wrapsValue(o, e) {
				continue
			}
			if isNilConst(o) {
				fine = false
				break
			}
			// unknown other value: acceptable only if the return is dominated by its own non-nil test
			oo := o
			g, n := guardedBy(ret, cmpFact(func(x ssa.Value) bool { return x == oo }, token.NEQ, vNil(), ""))
			if !(n > 0 && g) {
				fine = false
				break
			}
		}
		if !fine {
			return false, "a success return is reachable after the call failed", ret
		}
	}
	return true, "", nil
}

// wrapsValue reports whether o is a wrapper call (fmt.Errorf etc.) around e.
func wrapsValue(o, e ssa.Value) bool {
	call, ok := o.(*ssa.Call)
	if !ok {
		return false
	}
	for _, a := range call.Call.Args {
		for _, x := range origins(a) {
			if x == e {
				return true
			}
		}
	}
	return false
}

// isDirSyncHelper validates structurally that fn(path) opens path, fsyncs the
// handle and returns that error.
func isDirSyncHelper(fn *ssa.Function) bool {
	if fn == nil || fn.Blocks == nil || fn.Signature.Params().Len() != 1 || errResultIndex(fn.Signature) != 0 {
		return false
	}
	var open, sync ssa.CallInstruction
	for _, call := range calls(fn) {
		switch calleeName(call) {
		case "os.Open":
			if vParam(fn.Params[0].Name())(call.Common().Args[0]) {
				open = call
			}
		case "(*os.File).Sync":
			sync = call
		}
	}
	if open == nil || sync == nil {
		return false
	}
	if !vIs(resultOf(open, 0))(sync.Common().Args[0]) {
		return false
	}
	if _, ok := sync.(*ssa.Call); !ok {
		return false // deferred sync does not count
	}
	okS, _, _ := failStopSimple(fn, sync)
	okO, _, _ := failStopSimple(fn, open)
	return okS && okO
}

// RenameSite is one os.Rename call in production code.
type RenameSite struct {
	Fn       *ssa.Function
	Call     ssa.CallInstruction
	Src, Dst ssa.Value
	// Delegated: the rename sits in an extracted "publish" helper and renames its own
	// parameters; what precedes the rename (staging, sync, cleanup) is checked at the
	// helper's call sites, which appear as Lifted sites (Call = the helper call).
	Delegated, Lifted bool
}

var helperEffectBusy = map[*ssa.Function]bool{}

// helperHandleEffect summarises what a new helper does to the file handle it receives
// as parameter i, on its success returns: 2 = leaves unsynced writes, 1 = every path
// wrote and synced, 0 = state unchanged.
func helperHandleEffect(g *ssa.Function, i int) (int, bool) {
	if g == nil || g.Blocks == nil || helperEffectBusy[g] {
		return 0, false
	}
	helperEffectBusy[g] = true
	defer delete(helperEffectBusy, g)
	t := newHandleTracker(g, g.Params[i])
	seen := map[int]bool{}
	for _, ret := range successReturns(g) {
		st := t.stateBefore(ret)
		seen[st] = true
	}
	switch {
	case seen[2]:
		return 2, true
	case seen[1] && !seen[0]:
		return 1, true
	}
	return 0, true
}

func renameSites(p *Prog) []RenameSite {
	var out []RenameSite
	paramIdx := func(fn *ssa.Function, v ssa.Value) int {
		for i, q := range fn.Params {
			if ssa.Value(q) == v {
				return i
			}
		}
		return -1
	}
	for _, fn := range p.ProdFuncs() {
		for _, call := range callsTo(fn, nameIs("os.Rename")) {
			a := call.Common().Args
			rs := RenameSite{Fn: fn, Call: call, Src: a[0], Dst: a[1]}
			if fn.Parent() == nil && isNewHelper(fn) {
				si, di := paramIdx(fn, a[0]), paramIdx(fn, a[1])
				sites := callSitesOf(fn)
				if si >= 0 && di >= 0 && len(sites) > 0 {
					rs.Delegated = true
					for _, cs := range sites {
						ca := cs.Common().Args
						if si < len(ca) && di < len(ca) {
							out = append(out, RenameSite{Fn: cs.Parent(), Call: cs, Src: ca[si], Dst: ca[di], Lifted: true})
						}
					}
				}
			}
			out = append(out, rs)
		}
	}
	return out
}

// trusted producers: the file at the path argument is durable when they return nil.
var trustedDurable = map[string]string{
	"(*ls.Replica).applyWALSegmentsV3": "applies WAL segments through SQLite's own wal_checkpoint(TRUNCATE), which fsyncs the database file",
}

// producerSummary: callee g writes the file named by its parameter pidx and
// leaves it synced on every success return.
func producerLeavesClean(p *Prog, g *ssa.Function, pidx int) (bool, string) {
	if g == nil || g.Blocks == nil || pidx >= len(g.Params) {
		return false, "no body"
	}
	par := g.Params[pidx]
	var h ssa.Value
	for _, call := range calls(g) {
		path, _, ok := openerInfo(call)
		if ok && path != nil && vIs(par)(path) {
			h = resultOf(call, 0)
		}
	}
	if h == nil {
		return false, "no opener on the path parameter"
	}
	t := newHandleTracker(g, h)
	for _, ret := range successReturns(g) {
		if t.stateBefore(ret) != 1 {
			return false, "file not synced at " + p.InstrPos(ret)
		}
	}
	return true, ""
}

// fsPublicationRules decides R-sync, R-dirsync, R-errors, R-tmp-pair for every rename site.
func fsPublicationRules(c *Ctx, wantSync, wantTmp bool) {
	sites := renameSites(c.P)
	c.floor("R1-sync-before-rename", len(sites), 6, "os.Rename sites in production code")
	for _, rs := range sites {
		fn := rs.Fn
		c.touch(fn)
		name := fnName(fn)
		tag := name + ": rename@" + shortExpr(rs.Dst)

		// locate the producer of src
		var handle ssa.Value
		var opener ssa.CallInstruction
		for _, f := range []*ssa.Function{fn} {
			for _, call := range calls(f) {
				path, _, ok := openerInfo(call)
				if !ok {
					continue
				}
				if path != nil && exprEq(path, rs.Src) {
					handle, opener = resultOf(call, 0), call
				}
				if path == nil && calleeName(call) == "os.CreateTemp" {
					// src = tmp.Name()
					h := resultOf(call, 0)
					for _, o := range origins(rs.Src) {
						if nc, ok := o.(*ssa.Call); ok && calleeName(nc) == "(*os.File).Name" && vIs(h)(nc.Call.Args[0]) {
							handle, opener = h, call
						}
					}
				}
			}
		}
		if wantTmp && !rs.Delegated {
			const rule = "R1-tmp-staging"
			// src = dst + ".tmp" (or a CreateTemp name)
			ok := false
			for _, o := range origins(rs.Src) {
				if b, isB := o.(*ssa.BinOp); isB && b.Op == token.ADD && vConstStr(".tmp")(b.Y) && exprEq(b.X, rs.Dst) {
					ok = true
				}
				if nc, isC := o.(*ssa.Call); isC && calleeName(nc) == "(*os.File).Name" && vCallResult(nameIs("os.CreateTemp"))(nc.Call.Args[0]) {
					ok = true
				}
			}
			c.check(ok, rule, tag+": staged name = final name + \".tmp\" (or os.CreateTemp)", c.pos(rs.Call), "src is the temporary sibling of dst", "the renamed source is not a temporary sibling of the destination (data would be written under the final name)")
		}
		if wantSync && !rs.Delegated {
			const rule = "R1-sync-before-rename"
			if rs.Lifted {
				okR, whyR, _ := failStopSimple(fn, rs.Call)
				c.check(okR, "R4-publication-errors", tag+": failure of the publish helper is fail-stop", c.pos(rs.Call), "no success return reachable after failure", whyR)
			}
			if handle != nil {
				t := newHandleTracker(fn, handle)
				st := t.stateBefore(rs.Call)
				c.check(st == 1, rule, tag+": staged file is fsynced after its last write on every path to the rename", c.pos(rs.Call),
					"must-state at rename = clean", map[int]string{0: "the staged file is not opened on every path", 2: "a path reaches the rename with unsynced writes (no Sync after the last write)"}[st])
				// the rename is reachable only through the nil edge of every Sync on the handle that dominates it
				nS := 0
				for _, call := range calls(fn) {
					if _, isCall := call.(*ssa.Call); !isCall {
						continue
					}
					rv := recvOf(call)
					if rv == nil || !t.isH(rv) || methodName(call) != "Sync" || !dominates(call, rs.Call) {
						continue
					}
					nS++
					c.requireGuard("R4-publication-errors", fn, Site{rs.Call, "os.Rename(" + shortExpr(rs.Dst) + ")"}, cmpFact(vIs(resultOf(call, 0)), token.EQL, vNil(), "Sync err == nil"))
				}
				// ... or the Sync performed by an extracted staging helper that received the handle
				for _, call := range calls(fn) {
					k, isCall := call.(*ssa.Call)
					if !isCall || !dominates(call, rs.Call) {
						continue
					}
					g := k.Call.StaticCallee()
					if !isNewHelper(g) {
						continue
					}
					for i, a := range k.Call.Args {
						if t.isH(a) && i < len(g.Params) {
							if e, ok := helperHandleEffect(g, i); ok && e == 1 {
								nS++
								if ei := errResultIndex(k.Call.Signature()); ei >= 0 {
									c.requireGuard("R4-publication-errors", fn, Site{rs.Call, "os.Rename(" + shortExpr(rs.Dst) + ")"}, cmpFact(vIs(resultOf(call, ei)), token.EQL, vNil(), fnName(g)+" err == nil"))
								}
							}
						}
					}
				}
				c.check(nS >= 1, rule, tag+": a Sync of the staged file dominates the rename", c.pos(rs.Call), fmt.Sprintf("%d dominating Sync call(s)", nS), "no Sync call on the staged file dominates the rename")
				// explicit Close between sync and rename must be fail-stop
				for _, call := range calls(fn) {
					if _, isCall := call.(*ssa.Call); !isCall {
						continue
					}
					rv := recvOf(call)
					if rv == nil || !t.isH(rv) || methodName(call) != "Close" || !dominates(call, rs.Call) {
						continue
					}
					c.requireGuard("R4-publication-errors", fn, Site{rs.Call, "os.Rename(" + shortExpr(rs.Dst) + ")"}, cmpFact(vIs(resultOf(call, 0)), token.EQL, vNil(), "Close err == nil"))
				}
				_ = opener
			} else {
				// producer is a callee receiving the path
				nProd := 0
				okAll := true
				var why []string
				for _, call := range calls(fn) {
					if _, isCall := call.(*ssa.Call); !isCall || !dominates(call, rs.Call) {
						continue
					}
					for i, a := range call.Common().Args {
						if !exprEq(a, rs.Src) || calleeName(call) == "os.Rename" || calleeName(call) == "os.Remove" {
							continue
						}
						g := call.Common().StaticCallee()
						if g == nil || !c.P.InP(g) {
							continue
						}
						nProd++
						if reason, ok := trustedDurable[fnName(g)]; ok {
							why = append(why, fnName(g)+": trusted ("+reason+")")
						} else if ok, w := producerLeavesClean(c.P, g, i); ok {
							why = append(why, fnName(g)+": leaves the file synced on every success return")
							c.touch(g)
						} else {
							okAll = false
							why = append(why, fnName(g)+": "+w)
						}
						c.requireGuard("R4-publication-errors", fn, Site{rs.Call, "os.Rename(" + shortExpr(rs.Dst) + ")"}, cmpFact(vIs(resultOf(call, errResultIndex(call.Common().Signature()))), token.EQL, vNil(), fnName(g)+" err == nil"))
					}
				}
				c.check(nProd > 0 && okAll, rule, tag+": the renamed file is produced by callees that leave it synced", c.pos(rs.Call), strings.Join(why, "; "), "cannot establish that the renamed file was synced: "+strings.Join(why, "; "))
			}
		}
		if wantSync && !rs.Lifted {
			// R2: directory sync before success
			const rule2 = "R2-dirsync-before-success"
			var cut []Edge
			nHelp := 0
			for _, call := range calls(fn) {
				if _, isCall := call.(*ssa.Call); !isCall {
					continue
				}
				g := call.Common().StaticCallee()
				if g == nil || !isDirSyncHelper(g) {
					continue
				}
				arg := call.Common().Args[0]
				isDirOfDst := false
				for _, o := range origins(arg) {
					if dc, ok := o.(*ssa.Call); ok && calleeName(dc) == "path/filepath.Dir" && exprEq(dc.Call.Args[0], rs.Dst) {
						isDirOfDst = true
					}
				}
				if !isDirOfDst {
					continue
				}
				nHelp++
				cut = append(cut, nilEdges(fn, call)...)
				// the helper's error is fail-stop
				okF, whyF, _ := failStopSimple(fn, call)
				c.check(okF, "R4-publication-errors", tag+": directory sync failure is fail-stop", c.pos(call), "no success return reachable after failure", whyF)
			}
			r := reachable(fn, rs.Call.Block(), cut)
			bad := (*ssa.Return)(nil)
			for _, ret := range successReturns(fn) {
				if r[ret.Block()] && !(ret.Block() == rs.Call.Block() && instrIndex(ret) < instrIndex(rs.Call)) {
					bad = ret
				}
			}
			switch {
			case nHelp == 0:
				c.fail(rule2, tag+": directory of the destination is fsynced before success is reported", c.pos(rs.Call), "no directory-sync helper is called on filepath.Dir(dst) in "+name)
			case bad != nil:
				c.fail(rule2, tag+": directory of the destination is fsynced before success is reported", c.pos(rs.Call), "a success return at "+c.pos(bad)+" is reachable from the rename without passing the nil edge of the directory sync")
			default:
				c.ok(rule2, tag+": directory of the destination is fsynced before success is reported", c.pos(rs.Call), fmt.Sprintf("every path from the rename to a success return passes the nil edge of the directory sync (%d helper call(s))", nHelp))
			}
			// rename itself is fail-stop
			okR, whyR, _ := failStopSimple(fn, rs.Call)
			c.check(okR, "R4-publication-errors", tag+": rename failure is fail-stop", c.pos(rs.Call), "no success return reachable after failure", whyR)
		}
	}
	if wantSync {
		// R3 helper bodies
		n := 0
		for _, fn := range c.P.ProdFuncs() {
			if fn.Parent() == nil && isDirSyncHelper(fn) {
				n++
				c.ok("R3-dirsync-helper", fnName(fn)+": opens its parameter, fsyncs the handle, returns that error", c.P.Pos(fn.Pos()), "validated structurally")
			}
		}
		c.floor("R3-dirsync-helper", n, 1, "directory-sync helpers")
		if f := c.fn("R3-dirsync-helper", "ls/internal.FsyncDir"); f != nil {
			c.check(isDirSyncHelper(f), "R3-dirsync-helper", "ls/internal.FsyncDir is a valid directory-sync helper", c.P.Pos(f.Pos()), "validated", "internal.FsyncDir no longer opens its argument, fsyncs it and returns the error")
		}
	}
}

func shortExpr(v ssa.Value) string {
	switch x := v.(type) {
	case *ssa.Call:
		return calleeName(x) + "(…)"
	case *ssa.Parameter:
		return x.Name()
	case *ssa.UnOp:
		if fa, ok := x.X.(*ssa.FieldAddr); ok {
			return fieldAddrName(fa)
		}
		if al, ok := x.X.(*ssa.Alloc); ok {
			return al.Comment
		}
	case *ssa.BinOp:
		return shortExpr(x.X) + x.Op.String() + shortExpr(x.Y)
	case *ssa.Const:
		return x.Value.String()
	case *ssa.Field:
		return fieldName(x.X.Type(), x.Field)
	}
	for _, n := range debugRefNames(v) {
		return n
	}
	return v.Name()
}
