package main

// C07 — retention never deletes what the latest restore needs.

import (
	"fmt"
	"go/token"
	"go/types"
	"os"
	"strings"

	"golang.org/x/tools/go/ssa"
)

func init() {
	register(&PropSpec{
		ID:  "C07",
		Run: runC07,
		Explanation: "Who-may-delete over the whole production program (ReplicaClient.DeleteLTXFiles is called only from the five retention functions, DeleteAll from none) and, inside each retention function, " +
			"edge-cut facts on every append to the deletion list (snapshot: CreatedAt strictly before the cutoff; by-TXID: MaxTXID < floor; L0: not newer than the threshold AND MaxTXID <= max L1 TXID), " +
			"keep-newest (the list handed to DeleteLTXFiles is either trimmed of the last listed file or arrives on an edge proving it does not end with it; 'last listed file' is re-assigned from every iterated item), " +
			"prefix deletion for L0 (nothing is marked after the first too-recent file), the remote delete is gated by RetentionEnabled, local removals range over the same list, " +
			"and Store.EnforceSnapshotRetention passes the floor returned by DB.EnforceSnapshotRetention unchanged and skips level 0.",
		NotDecided:  "global safety over all orders of compaction/snapshot/ageing; that the listing order is TXID order (interface contract of ReplicaClient.LTXFiles)",
		Assumptions: []string{"ReplicaClient.LTXFiles lists a level in ascending TXID order (documented contract)"},
	})
}

var retentionFuncs = []string{
	"(*ls.DB).EnforceSnapshotRetention",
	"(*ls.DB).EnforceL0RetentionByTime",
	"(*ls.Compactor).EnforceSnapshotRetention",
	"(*ls.Compactor).EnforceRetentionByTXID",
	"(*ls.Compactor).EnforceL0Retention",
}

func isDeleteLTX(s string) bool { return strings.HasSuffix(s, ".DeleteLTXFiles") }
func isDeleteAll(s string) bool { return strings.HasSuffix(s, ".DeleteAll") }

// phiLeaves flattens phis; carried reports a loop-carried self edge (the value
// of a previous iteration survives an iteration unchanged).
func phiLeaves(v ssa.Value) (leaves []ssa.Value, carried bool) {
	onStack := map[ssa.Value]bool{}
	done := map[ssa.Value]bool{}
	var walk func(v ssa.Value)
	walk = func(v ssa.Value) {
		phi, ok := v.(*ssa.Phi)
		if !ok {
			leaves = append(leaves, v)
			return
		}
		if onStack[v] {
			carried = true
			return
		}
		if done[v] {
			return
		}
		onStack[v] = true
		for _, e := range phi.Edges {
			walk(e)
		}
		onStack[v] = false
		done[v] = true
	}
	walk(v)
	return
}

func runC07(c *Ctx) {
	// R1 who-may-delete
	{
		const rule = "R1-who-may-delete"
		allowed := map[string]bool{}
		for _, n := range retentionFuncs {
			allowed[n] = true
		}
		nDel := 0
		for _, fn := range c.P.ProdFuncs() {
			root := fn
			for root.Parent() != nil {
				root = root.Parent()
			}
			for _, call := range calls(fn) {
				nm := calleeName(call)
				if call.Common().IsInvoke() && isDeleteLTX(nm) || (!call.Common().IsInvoke() && isDeleteLTX(nm) && strings.Contains(nm, "ReplicaClient")) {
					nDel++
					okWho := allowed[fnName(root)]
					if hosts := helperHosts(fnName(root)); len(hosts) > 0 {
						okWho = true
						for _, h := range hosts {
							if !allowed[h] {
								okWho = false
							}
						}
						nDel += len(hosts) - 1
					}
					c.check(okWho, rule, "DeleteLTXFiles called from "+fnName(root), c.pos(call), "a retention function", "replica files are deleted from a function that is not one of the retention functions")
				}
				if isDeleteAll(nm) && (call.Common().IsInvoke() || strings.Contains(nm, "ReplicaClient")) {
					c.fail(rule, "DeleteAll called from "+fnName(root), c.pos(call), "production code wipes the whole replica")
				}
			}
		}
		c.floor(rule, nDel, 5, "DeleteLTXFiles call sites")
		c.ok(rule, "no production call of ReplicaClient.DeleteAll", "", "0 call sites in scope P")
	}

	for _, name := range retentionFuncs {
		fn := c.fn("R2-delete-predicate", name)
		if fn == nil {
			continue
		}
		c07Function(c, fn)
	}
	c07Store(c)
	c07SnapshotFloor(c)
}

func c07Function(c *Ctx, fn *ssa.Function) {
	name := fnName(fn)
	vdels := callSitesV(fn, isDeleteLTX)
	if len(vdels) != 1 {
		c.fail("R2-delete-predicate", name+": exactly one DeleteLTXFiles call", c.P.Pos(fn.Pos()), fmt.Sprintf("found %d", len(vdels)))
		return
	}
	vdel := vdels[0]
	vdel.Desc = "DeleteLTXFiles"
	del := vdel.Call()
	// the list handed to DeleteLTXFiles, as a value of fn (looking through the parameters
	// of an extracted removal helper along the call string)
	list := resolveThroughCtx(del.Common().Args[len(del.Common().Args)-1], vdel.Ctx)
	// the function that builds the list: fn itself, or the helper the scan was moved into
	body := fn
	if li, ok := list.(ssa.Instruction); ok && li.Parent() != nil && li.Parent() != fn && isNewHelper(li.Parent()) {
		body = li.Parent()
	}
	// ... or an extracted scan function whose result is the list
	if call, ok := list.(*ssa.Call); ok {
		if h := call.Call.StaticCallee(); isNewHelper(h) && h.Signature.Results().Len() == 1 {
			body = h
		}
	}

	// appends feeding the deletion list
	var appends []*ssa.Call
	seen := map[ssa.Value]bool{}
	var collect func(v ssa.Value)
	collect = func(v ssa.Value) {
		if seen[v] {
			return
		}
		seen[v] = true
		switch x := v.(type) {
		case *ssa.Phi:
			for _, e := range x.Edges {
				collect(e)
			}
		case *ssa.Slice:
			collect(x.X)
		case *ssa.Call:
			if calleeName(x) == "builtin:append" {
				appends = append(appends, x)
				collect(x.Call.Args[0])
			} else if h := x.Call.StaticCallee(); isNewHelper(h) && h.Signature.Results().Len() == 1 {
				for _, r := range returns(h) {
					collect(retOperand(r, 0))
				}
			}
		case *ssa.UnOp:
			for _, o := range origins(x) {
				if o != v {
					collect(o)
				}
			}
		}
	}
	collect(list)
	c.floor("R2-delete-predicate", len(appends), 1, "appends to the deletion list in "+name)
	inList := func(v ssa.Value) bool {
		found := false
		s2 := map[ssa.Value]bool{}
		var w func(v ssa.Value)
		w = func(v ssa.Value) {
			if s2[v] || found {
				return
			}
			s2[v] = true
			if seen[v] {
				if _, isConst := v.(*ssa.Const); !isConst {
					found = true
					return
				}
			}
			switch x := v.(type) {
			case *ssa.Phi:
				for _, e := range x.Edges {
					w(e)
				}
			case *ssa.Slice:
				w(x.X)
			case *ssa.UnOp:
				// the list kept in a memory cell (captured by a read-only closure)
				if promotableCell(x) != nil {
					for _, o := range origins(x) {
						w(o)
					}
				}
			}
		}
		w(v)
		return found
	}

	item := vResult(isItem, 0)
	created := vOr(vFieldLoad("FileInfo.CreatedAt", nil), vCallResult(nameHasSuffix(".ModTime", ".UTC")), vResult(nameIs("(time.Time).Add"), 0))
	for _, ap := range appends {
		site := Site{ap, "deleted = append(deleted, info)"}
		el := appendedElems(ap)
		isItemElem := len(el) == 1 && item(el[0])
		c.check(isItemElem, "R2-delete-predicate", name+": only listed files are marked for deletion", c.pos(ap), "element is the iterator item", "a value other than the current listing item is appended to the deletion list")
		switch {
		case strings.HasSuffix(name, "EnforceSnapshotRetention"):
			cutoff := vOr(vParam("timestamp"), vResult(nameIs("(time.Time).Add"), 0))
			c.requireAlts("R2-delete-predicate", fn, site, strictlyBefore(vFieldLoad("FileInfo.CreatedAt", item), cutoff, "info.CreatedAt strictly before the retention cutoff"))
		case strings.HasSuffix(name, "EnforceRetentionByTXID"):
			c.requireGuard("R2-delete-predicate", fn, site, cmpFact(vFieldLoad("FileInfo.MaxTXID", item), token.LSS, vParam("txID"), "info.MaxTXID < txID"))
		default: // L0
			c.requireGuard("R2-delete-predicate", fn, site, cmpFact(vFieldLoad("FileInfo.MaxTXID", item), token.LEQ, vFieldLoad("FileInfo.MaxTXID", nil), "info.MaxTXID <= maxL1TXID"))
			thr := vResult(nameIs("(time.Time).Add"), 0)
			c.requireAlts("R2-delete-predicate", fn, site, append([]FP{}, notAfter(created, thr, "createdAt not after threshold")...))
		}
	}

	// L0: max L1 TXID comes from the level-1 listing; nothing is marked after the first too-recent file
	if strings.Contains(name, "L0Retention") {
		const rule = "R5-l0-prefix-only"
		thr := vResult(nameIs("(time.Time).Add"), 0)
		recent := []FP{
			truthFact(vCall("(time.Time).After", created, thr), true, "createdAt.After(threshold)"),
			truthFact(vCall("(time.Time).Before", thr, created), true, ""),
		}
		es := cutEdges(body, recent...)
		c.floor(rule, len(es), 1, "too-recent branch in "+name)
		for _, e := range es {
			r := reachable(body, e.From.Succs[e.Succ], nil)
			bad := false
			for _, ap := range appends {
				if r[ap.Block()] {
					bad = true
				}
			}
			c.check(!bad, rule, name+": after the first too-recent L0 file no further file is marked for deletion", c.pos(lastInstr(e.From)),
				"no append to the deletion list reachable from the too-recent edge", "files listed after a too-recent file can still be deleted (the surviving L0 files would not be one contiguous run ending at the newest)")
		}
		// listings: max L1 from level 1, candidates from level 0
		lv := map[int64]int{}
		for _, call := range callsToDeep(fn, isLTXFiles) {
			if n, ok := constInt(namedArg(call, "level")); ok {
				lv[n]++
			}
		}
		c.check(lv[1] == 1 && lv[0] == 1, rule, name+": coverage bound from level 1, candidates from level 0", c.P.Pos(fn.Pos()), "LTXFiles(1) and LTXFiles(0)", fmt.Sprintf("unexpected listing levels %v", lv))
		// retention disabled (<= 0) deletes nothing
		ret := vOr(vParam("retention"), vFieldLoad("DB.L0Retention", nil))
		c.requireGuardV(rule, fn, vdel, cmpFact(ret, token.GTR, vConstInt(0), "retention > 0"))
	}

	// R3 keep-newest: list given to DeleteLTXFiles
	{
		const rule = "R3-keep-newest"
		// lastInfo: the value the last element of the list is compared with
		var lastInfo ssa.Value
		var neqAlts []FP
		// the comparison may be the branch condition itself or part of a named boolean
		for _, b := range body.Blocks {
			for _, in := range b.Instrs {
				bo, ok := in.(*ssa.BinOp)
				if !ok || (bo.Op != token.EQL && bo.Op != token.NEQ) {
					continue
				}
				for _, pair := range [][2]ssa.Value{{bo.X, bo.Y}, {bo.Y, bo.X}} {
					if isLastElemOf(pair[0], inList) && isFileInfoPtr(pair[1].Type()) {
						lastInfo = pair[1]
					}
				}
			}
		}
		if lastInfo == nil {
			c.fail(rule, name+": comparison of the deletion list's last element with the last listed file", c.P.Pos(fn.Pos()), "no such comparison found: the newest file is not protected")
		} else {
			li := lastInfo
			neqAlts = []FP{
				cmpFact(func(v ssa.Value) bool { return isLastElemOf(v, inList) }, token.NEQ, vIs(li), "deleted[len-1] != lastInfo"),
				cmpFact(vLenOf(inList), token.LEQ, vConstInt(0), "len(deleted) == 0"),
				cmpFact(vIs(li), token.EQL, vNil(), "lastInfo == nil"),
			}
			if strings.Contains(name, "L0Retention") {
				// processedAll == false only via the too-recent break (the last listed file was then not marked)
				neqAlts = append(neqAlts, FP{B: func(v ssa.Value) bool {
					if _, ok := v.(*ssa.Phi); !ok {
						return false
					}
					return v.Type().String() == "bool"
				}, Truth: false, Desc: "!processedAll (stopped at a too-recent file)"})
			}
			// the ways the list can be selected, looking through the returns of an extracted
			// scan function and the merges behind them
			if strings.Contains(name, "L0Retention") {
				thr := vResult(nameIs("(time.Time).Add"), 0)
				neqAlts = append(neqAlts,
					truthFact(vCall("(time.Time).After", created, thr), true, "stopped at a too-recent file"),
					truthFact(vCall("(time.Time).Before", thr, created), true, ""))
			}
			var flat []Incoming
			var expand func(v ssa.Value, d int)
			expand = func(v ssa.Value, d int) {
				for _, inc := range incomings(v) {
					_, isPhi := inc.Val.(*ssa.Phi)
					if inc.Ret != nil && isPhi && d < 3 {
						// a return that is itself reached only with one of the facts stands as it is
						guarded := false
						for _, a := range neqAlts {
							if inc.hasFact(a) {
								guarded = true
							}
							if os.Getenv("LSV_DEBUG_C07") != "" {
								g, k := guardedBy(inc.Ret, a)
								fmt.Fprintln(os.Stderr, "c07 ret", c.pos(inc.Ret), a.Desc, g, k)
							}
						}
						if !guarded {
							expand(inc.Val, d+1)
							continue
						}
					}
					flat = append(flat, inc)
				}
			}
			expand(list, 0)
			for _, inc := range flat {
				desc := fmt.Sprintf("list handed to DeleteLTXFiles (via block %s)", blkName(inc.Pred))
				if inc.Ret != nil {
					desc = "list returned at " + c.pos(inc.Ret)
				}
				if sl, ok := inc.Val.(*ssa.Slice); ok && isLenMinusOne(sl.High, sl.X) && sl.Low == nil {
					c.ok(rule, name+": "+desc+" is trimmed of its last element", c.pos(del), "deleted[:len(deleted)-1]")
					// the trim happens only when the last element is the last listed file
					c.requireGuard(rule, fn, Site{sl, "trim deleted[:len-1]"}, cmpFact(func(v ssa.Value) bool { return isLastElemOf(v, inList) }, token.EQL, vIs(li), "deleted[len-1] == lastInfo"))
					continue
				}
				ok := false
				for _, a := range neqAlts {
					if inc.hasFact(a) {
						ok = true
					}
				}
				if inc.Pred == nil && inc.Ret == nil {
					// not a phi: the untrimmed list reaches the delete directly
					ok2, n := guardedSite(vdel, neqAlts...)
					ok = n > 0 && ok2
				}
				c.check(ok, rule, name+": untrimmed "+desc+" provably does not end with the last listed file", c.pos(del),
					"edge carries one of [deleted[len-1] != lastInfo, len(deleted)==0, lastInfo==nil, !processedAll]", "the deletion list can reach DeleteLTXFiles still containing the newest listed file")
			}
			// lastInfo is refreshed from every iterated item
			leaves, carried := phiLeaves(li)
			good := !carried
			for _, l := range leaves {
				if !isNilConst(l) && !item(l) {
					good = false
				}
			}
			c.check(good, rule, name+": 'last listed file' is re-assigned from every iterated item", c.pos(del),
				"every loop-carried edge of lastInfo carries the current item", "lastInfo can keep a stale value across an iteration (it would no longer denote the last listed file, so the newest file loses its protection)")
			// processedAll is cleared only on the too-recent edge
			if strings.Contains(name, "L0Retention") {
				thr := vResult(nameIs("(time.Time).Add"), 0)
				for _, b := range body.Blocks {
					for _, in := range b.Instrs {
						phi, ok := in.(*ssa.Phi)
						if !ok {
							break
						}
						if phi.Type().String() != "bool" {
							continue
						}
						// a flag variable: only constants (and merges of them) flow into it; the
						// phi of an `a && b` expression is not one
						isFlag := true
						for _, e := range phi.Edges {
							switch e.(type) {
							case *ssa.Const, *ssa.Phi:
							default:
								isFlag = false
							}
						}
						if !isFlag {
							continue
						}
						for i, e := range phi.Edges {
							if k, ok := e.(*ssa.Const); ok && k.Value != nil && k.Value.String() == "false" {
								pred := b.Preds[i]
								okE := false
								for _, fp := range []FP{truthFact(vCall("(time.Time).After", created, thr), true, ""), truthFact(vCall("(time.Time).Before", thr, created), true, "")} {
									if edgeHasFact(pred, b, fp) {
										okE = true
									}
								}
								c.check(okE, rule, name+": processedAll = false only when stopping at a too-recent file", c.pos(lastInstr(pred)), "edge carries createdAt.After(threshold)", "the keep-newest guard can be disabled on a path that did not stop at a too-recent file")
							}
						}
					}
				}
			}
		}
	}

	// R4 remote delete gated by RetentionEnabled
	{
		const rule = "R4-retention-enabled-gate"
		en := vOr(vFieldLoad("DB.RetentionEnabled", nil), vFieldLoad("Compactor.RetentionEnabled", nil))
		c.requireGuardV(rule, fn, vdel, truthFact(en, true, "RetentionEnabled"))
	}

	// R7 local removals range over the same list
	{
		const rule = "R7-local-removals-same-list"
		n := 0
		for _, vcall := range callSitesV(fn, nameIs("os.Remove", "slot:Compactor.LocalFileDeleter")) {
			call := vcall.Call()
			n++
			// the loop this call sits in ranges over the deletion list
			ok := false
			for _, b := range call.Parent().Blocks {
				for _, in := range b.Instrs {
					if ia, isIA := in.(*ssa.IndexAddr); isIA && inList(resolveThroughCtx(ia.X, vcall.Ctx)) && (b == call.Block() || b.Dominates(call.Block())) {
						ok = true
					}
				}
			}
			c.check(ok, rule, name+": local file removal iterates over the deletion list", c.pos(call), "range over the same list", "local files are removed from a list other than the one vetted for remote deletion")
		}
		c.floor(rule, n, 1, "local removals in "+name)
	}
}

func blkName(b *ssa.BasicBlock) string {
	if b == nil {
		return "-"
	}
	return fmt.Sprint(b.Index)
}

// isLastElemOf reports whether v is list[len(list)-1] for a list satisfying m.
func isLastElemOf(v ssa.Value, m func(ssa.Value) bool) bool {
	u, ok := v.(*ssa.UnOp)
	if !ok || u.Op != token.MUL {
		return false
	}
	ia, ok := u.X.(*ssa.IndexAddr)
	if !ok || !m(ia.X) {
		return false
	}
	return isLenMinusOne(ia.Index, ia.X)
}

func isLenMinusOne(idx ssa.Value, list ssa.Value) bool {
	b, ok := idx.(*ssa.BinOp)
	if !ok || b.Op != token.SUB || !vConstInt(1)(b.Y) {
		return false
	}
	call, ok := b.X.(*ssa.Call)
	if !ok || calleeName(call) != "builtin:len" {
		return false
	}
	return call.Call.Args[0] == list || sameValue(call.Call.Args[0], list)
}

func c07Store(c *Ctx) {
	const rule = "R6-cascade-floor"
	fn := c.fn(rule, "(*ls.Store).EnforceSnapshotRetention")
	if fn == nil {
		return
	}
	floor := vResult(nameIs("(*ls.DB).EnforceSnapshotRetention"), 0)
	n := 0
	for _, call := range callsTo(fn, nameIs("(*ls.DB).EnforceRetentionByTXID")) {
		n++
		c.check(floor(namedArg(call, "txID")) && !vBinOp(token.ADD, vAny(), vAny(), false)(namedArg(call, "txID")), rule, fnName(fn)+": EnforceRetentionByTXID floor = value returned by DB.EnforceSnapshotRetention", c.pos(call), "argument is that result, unchanged", "the cascade floor is not the value returned by snapshot retention")
		c.requireGuard(rule, fn, Site{call, "EnforceRetentionByTXID"}, cmpFact(vFieldLoad("CompactionLevel.Level", nil), token.NEQ, vConstInt(0), "lvl.Level != 0"))
		c.requireGuard(rule, fn, Site{call, "EnforceRetentionByTXID"}, cmpFact(vResult(nameIs("(*ls.DB).EnforceSnapshotRetention"), 1), token.EQL, vNil(), "snapshot retention err == nil"))
		lvl := namedArg(call, "level")
		c.check(vFieldLoad("CompactionLevel.Level", nil)(lvl), rule, fnName(fn)+": cascade level = lvl.Level", c.pos(call), "provenance matches", "unexpected level argument")
	}
	c.floor(rule, n, 1, "EnforceRetentionByTXID calls in Store.EnforceSnapshotRetention")
	// DB.EnforceRetentionByTXID forwards unchanged
	if w := c.fn(rule, "(*ls.DB).EnforceRetentionByTXID"); w != nil {
		for _, call := range callsTo(w, nameIs("(*ls.Compactor).EnforceRetentionByTXID")) {
			c.check(vParam("level")(namedArg(call, "level")) && vParam("txID")(namedArg(call, "txID")), rule, fnName(w)+": forwards (level, txID) unchanged", c.pos(call), "parameters forwarded", "level/floor altered while forwarding")
		}
	}
}

// c07SnapshotFloor: DB.EnforceSnapshotRetention returns the MaxTXID of the
// snapshot preceding the first retained one (or 0).
func c07SnapshotFloor(c *Ctx) {
	const rule = "R8-snapshot-floor"
	fn := c.fn(rule, "(*ls.DB).EnforceSnapshotRetention")
	if fn == nil {
		return
	}
	n := 0
	for _, r := range successReturns(fn) {
		v := retOperand(r, 0)
		for _, o := range origins(v) {
			if k, ok := o.(*ssa.Const); ok {
				if x, _ := constInt(k); x == 0 {
					continue
				}
			}
			n++
			good := false
			if u, ok := o.(*ssa.UnOp); ok && u.Op == token.MUL {
				if fa, ok := u.X.(*ssa.FieldAddr); ok && fieldAddrName(fa) == "FileInfo.MaxTXID" {
					// base = snapshots[i-1]
					if bu, ok := fa.X.(*ssa.UnOp); ok {
						if ia, ok := bu.X.(*ssa.IndexAddr); ok {
							if b, ok := ia.Index.(*ssa.BinOp); ok && b.Op == token.SUB && vConstInt(1)(b.Y) {
								good = true
								// guarded by: element i is not in deleted, i > 0
								if firstIndexNotDeleted(b.X, ia.X) {
									// i = slices.IndexFunc(snapshots, func(x) bool { return !slices.Contains(deleted, x) }):
									// for i >= 0 the library guarantees the predicate on snapshots[i] and its
									// negation on everything before it
									c.ok(rule, fnName(fn)+": floor = snapshots[i-1].MaxTXID requires [!slices.Contains(deleted, snapshots[i])]", c.pos(u), "i is the slices.IndexFunc result of that predicate over the same list")
								} else {
									c.requireGuard(rule, fn, Site{u, "floor = snapshots[i-1].MaxTXID"},
										truthFact(vCallResult(func(s string) bool { return strings.HasPrefix(s, "slices.Contains") }), false, "!slices.Contains(deleted, snapshots[i])"),
										truthFact(vSetMember(), false, "snapshots[i] not in the set built from the deletion list"))
								}
								c.requireGuard(rule, fn, Site{u, "floor = snapshots[i-1].MaxTXID"}, cmpFact(vIs(b.X), token.GTR, vConstInt(0), "i > 0"))
							}
						}
					}
				}
			}
			c.check(good, rule, fnName(fn)+": returned floor = MaxTXID of the snapshot just before the first retained one", c.pos(r), "snapshots[i-1].MaxTXID", "the cascade floor does not derive from the last deleted snapshot's MaxTXID")
		}
	}
	c.floor(rule, n, 1, "non-zero floor values returned by DB.EnforceSnapshotRetention")
	_ = types.Typ
}

// firstIndexNotDeleted reports whether idx is slices.IndexFunc(list, pred) where pred
// returns exactly !slices.Contains(<some list>, its argument).
func firstIndexNotDeleted(idx, list ssa.Value) bool {
	call, ok := idx.(*ssa.Call)
	if !ok || !strings.HasPrefix(calleeName(call), "slices.IndexFunc") || len(call.Call.Args) != 2 {
		return false
	}
	if !sameValue(call.Call.Args[0], list) && call.Call.Args[0] != list {
		return false
	}
	var pred *ssa.Function
	switch x := call.Call.Args[1].(type) {
	case *ssa.MakeClosure:
		pred, _ = x.Fn.(*ssa.Function)
	case *ssa.Function:
		pred = x
	}
	if pred == nil || len(pred.Params) != 1 {
		return false
	}
	rets := returns(pred)
	if len(rets) == 0 {
		return false
	}
	for _, r := range rets {
		if len(r.Results) != 1 {
			return false
		}
		not, ok := r.Results[0].(*ssa.UnOp)
		if !ok || not.Op != token.NOT {
			return false
		}
		in, ok := not.X.(*ssa.Call)
		if !ok || !strings.HasPrefix(calleeName(in), "slices.Contains") || len(in.Call.Args) != 2 || in.Call.Args[1] != ssa.Value(pred.Params[0]) {
			return false
		}
	}
	return true
}

// vSetMember matches the ok result of `_, ok := set[x]` where set is a local map filled
// only by ranging over a slice (the set form of slices.Contains(list, x)).
func vSetMember() VM {
	return func(v ssa.Value) bool {
		ex, ok := v.(*ssa.Extract)
		if !ok || ex.Index != 1 {
			return false
		}
		lk, ok := ex.Tuple.(*ssa.Lookup)
		if !ok || !lk.CommaOk {
			return false
		}
		for _, o := range origins(lk.X) {
			mm, ok := o.(*ssa.MakeMap)
			if !ok || mm.Referrers() == nil {
				return false
			}
			n := 0
			for _, r := range *mm.Referrers() {
				mu, ok := r.(*ssa.MapUpdate)
				if !ok {
					continue
				}
				n++
				fromRange := false
				for _, k := range origins(mu.Key) {
					if u, ok := k.(*ssa.UnOp); ok {
						if _, ok := u.X.(*ssa.IndexAddr); ok {
							fromRange = true
						}
					}
				}
				if !fromRange {
					return false
				}
			}
			if n == 0 {
				return false
			}
		}
		return true
	}
}
