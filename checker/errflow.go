package main

// E1 — error discipline on a cone: every error-returning call on an
// acknowledgement path is fail-stop (failstop.go) or matches a frozen idiom.

import (
	"fmt"
	"go/token"
	"os"
	"sort"
	"strings"

	"golang.org/x/tools/go/ssa"
)

// callees documented to always return a nil error
var alwaysNilCallee = map[string]string{
	"(*io.PipeWriter).Close":          "io.PipeWriter.Close always returns nil",
	"(*io.PipeWriter).CloseWithError": "always returns nil",
	"(*io.PipeReader).Close":          "always returns nil",
	"(*io.PipeReader).CloseWithError": "always returns nil",
	"(*bytes.Buffer).Write":           "always returns nil",
	"(*bytes.Buffer).WriteString":     "always returns nil",
	"(*bytes.Buffer).WriteByte":       "always returns nil",
	"(*strings.Builder).WriteString":  "always returns nil",
	"(*strings.Builder).Write":        "always returns nil",
	"(*strings.Builder).WriteByte":    "always returns nil",
	"iface:hash.Hash.Write":           "hash.Hash.Write never returns an error",
	"iface:hash.Hash64.Write":         "hash.Hash.Write never returns an error",
	"(*ls.Replica).Start":             "returns nil on every path (checked by rule always-nil)",
	"fmt.Fprintf":                     "", // placeholder removed below
}

func init() { delete(alwaysNilCallee, "fmt.Fprintf") }

// best-effort calls whose failure never affects an acknowledgement
var bestEffortCallee = map[string]string{
	"os.Chown":                  "ownership is best effort (non-root daemons cannot chown)",
	"(*os.File).Chown":          "ownership is best effort",
	"crypto/rand.Read":          "randomises the schema cookie only",
	"(*os.File).SetDeadline":    "",
	"iface:io.ReadCloser.Close": "closing a stream that was only read from: what was consumed was checked by the read that returned it (a dropped close error loses no data)",
}

// functions that build an error value (their result is the error, not a failure)
var errorConstructor = map[string]bool{"fmt.Errorf": true, "errors.New": true, "errors.Join": true, "context.Cause": true, "ls.NewLTXError": true,
	"iface:context.Context.Err": true, "iface:ltx.FileIterator.Err": false}

func cleanupLike(name string) bool {
	for _, s := range []string{".Close", ".Remove", ".RemoveAll", ".Rollback", "rollback", ".UnlockFile", ".Stop", ".CloseWithError", "releaseReadLock", ".close", "UnlockFileEx", ".Unlock", ".RUnlock"} {
		if strings.HasSuffix(name, s) {
			return true
		}
	}
	return false
}

// EFException is a named (function, callee) exception with its reason.
type EFException struct {
	Fn, Callee, Reason string
	Tolerate           []string // if set: only these error predicates are tolerated; everything else stays fail-stop
	DroppedOnly        bool     // applies only to a call whose error result is discarded
}

type EFConfig struct {
	Rule       string
	Roots      []string
	Pkgs       map[string]bool // relative package paths kept in the cone
	Retry      map[string]bool // "fn|callee": success of a re-executed call redeems
	Exceptions []EFException
	Skip       map[string]string // functions excluded from the cone with reason
}

func (cfg *EFConfig) exception(fn, callee string) (string, bool) {
	if e := cfg.exc(fn, callee); e != nil && len(e.Tolerate) == 0 {
		return e.Reason, true
	}
	return "", false
}

func (cfg *EFConfig) exc(fn, callee string) *EFException {
	if e := cfg.exc1(fn, callee); e != nil {
		return e
	}
	// fn may be a helper extracted from a function the exception names: it
	// inherits the exception when every production caller carries the same one.
	var found *EFException
	for _, host := range helperHosts(fn) {
		e := cfg.exc1(host, callee)
		if e == nil || (found != nil && e != found) {
			found = nil
			break
		}
		found = e
	}
	if found != nil {
		return found
	}
	// fn may be a new function that absorbed a reference function which no longer exists
	// (close() merged into dropAndRetry()): it inherits that function's exception when it is
	// called only from functions that used to call the vanished one
	hosts := helperHosts(fn)
	if os.Getenv("LSV_DEBUG_EXC") != "" {
		fmt.Fprintln(os.Stderr, "exc inherit?", fn, callee, hosts)
	}
	if len(hosts) == 0 || curProg == nil {
		return nil
	}
	refCallers := loadAnchorCallers()
	for i, e := range cfg.Exceptions {
		if e.Callee != callee || e.Fn == "*" || curProg.Func(e.Fn) != nil || len(refCallers[e.Fn]) == 0 {
			continue
		}
		was := map[string]bool{}
		for _, c := range refCallers[e.Fn] {
			was[c] = true
		}
		all := true
		for _, h := range hosts {
			if !was[h] {
				all = false
			}
		}
		if all {
			return &cfg.Exceptions[i]
		}
	}
	return nil
}

func (cfg *EFConfig) exc1(fn, callee string) *EFException {
	for i, e := range cfg.Exceptions {
		if (e.Fn == fn || e.Fn == "*") && (e.Callee == callee || e.Callee == "*") {
			return &cfg.Exceptions[i]
		}
	}
	return nil
}

// helperHosts names the reference functions a new helper was (transitively)
// extracted from: the production callers of the helper, looking through
// callers that are themselves new helpers. Empty for reference functions.
func helperHosts(name string) []string {
	if curProg == nil {
		return nil
	}
	var fn *ssa.Function
	for _, g := range curProg.ProdFuncs() {
		if g.Parent() == nil && fnName(g) == name {
			fn = g
			break
		}
	}
	if fn == nil || !isNewHelper(fn) {
		return nil
	}
	seen := map[*ssa.Function]bool{}
	hosts := map[string]bool{}
	var walk func(h *ssa.Function, d int) bool
	walk = func(h *ssa.Function, d int) bool {
		if seen[h] {
			return true
		}
		seen[h] = true
		sites := callSitesOf(h)
		if len(sites) == 0 || d > 3 {
			return false
		}
		for _, cs := range sites {
			c := cs.Parent()
			for c.Parent() != nil {
				c = c.Parent()
			}
			if isNewHelper(c) {
				if !walk(c, d+1) {
					return false
				}
				continue
			}
			hosts[fnName(c)] = true
		}
		return true
	}
	if !walk(fn, 0) {
		return nil
	}
	var out []string
	for h := range hosts {
		out = append(out, h)
	}
	sort.Strings(out)
	return out
}

// deferredOnly reports whether closure fn is referenced only by defer statements.
func deferredOnly(fn *ssa.Function) bool {
	p := fn.Parent()
	if p == nil {
		return false
	}
	n := 0
	for _, b := range p.Blocks {
		for _, in := range b.Instrs {
			mc, ok := in.(*ssa.MakeClosure)
			if !ok || mc.Fn != fn {
				continue
			}
			for _, r := range *mc.Referrers() {
				if _, isD := r.(*ssa.Defer); isD {
					n++
				} else if _, isDbg := r.(*ssa.DebugRef); !isDbg {
					return false
				}
			}
		}
	}
	return n > 0
}

func hasUses(v ssa.Value) bool {
	if v == nil || v.Referrers() == nil {
		return false
	}
	for _, r := range *v.Referrers() {
		if _, ok := r.(*ssa.DebugRef); !ok {
			return true
		}
	}
	return false
}

// inFailureContext: the call sits in a region reachable only after some other
// error was observed non-nil.
func inFailureContext(call ssa.CallInstruction) bool {
	fn := call.Parent()
	if errResultIndex(fn.Signature) >= 0 {
		// the function reports errors: the call is on a failure path iff no
		// success return can follow it
		r := reachable(fn, call.Block(), nil)
		for _, ret := range successReturns(fn) {
			if r[ret.Block()] || ret.Block() == call.Block() {
				return false
			}
		}
		return true
	}
	var cut []Edge
	for _, b := range fn.Blocks {
		ifi, ok := lastInstr(b).(*ssa.If)
		if !ok {
			continue
		}
		for e := 0; e < 2; e++ {
			f := edgeFact(ifi, e)
			if f.Op == 0 {
				continue
			}
			if isErrorType(f.L.Type()) && isNilConst(f.R) && f.Op.String() == "!=" {
				cut = append(cut, Edge{b, e})
			}
		}
	}
	if len(cut) == 0 {
		return false
	}
	return !reachable(fn, nil, cut)[call.Block()]
}

// errflowCone evaluates the error discipline over the cone of cfg.Roots.
func errflowCone(c *Ctx, cfg *EFConfig) {
	var roots []*ssa.Function
	for _, r := range cfg.Roots {
		if f := c.fn(cfg.Rule, r); f != nil {
			roots = append(roots, f)
		}
	}
	cone := c.P.cone(roots...)
	nFn, nCalls, nWalk := 0, 0, 0
	usedExc := map[string]bool{}
	for _, fn := range cone {
		root := fn
		for root.Parent() != nil {
			root = root.Parent()
		}
		tp := typesPkgOf(root)
		if tp == nil {
			continue
		}
		rel, _ := relPkg(tp)
		if cfg.Pkgs != nil && !cfg.Pkgs[rel] {
			continue
		}
		name := fnName(fn)
		if _, skip := cfg.Skip[fnName(root)]; skip {
			continue
		}
		// code extracted from skipped functions only is skipped with them
		if hosts := helperHosts(fnName(root)); len(hosts) > 0 {
			all := true
			for _, h := range hosts {
				if _, skip := cfg.Skip[h]; !skip {
					all = false
				}
			}
			if all {
				continue
			}
		}
		if deferredOnly(fn) {
			continue // I1: deferred cleanup closure
		}
		hasErr := errResultIndex(fn.Signature) >= 0
		wantSig := false
		if !hasErr {
			for _, call := range calls(fn) {
				if strings.HasSuffix(calleeName(call), ".CloseWithError") {
					wantSig = true
				}
			}
			if !wantSig {
				continue // no error channel: retry loops / handlers (checked by liveness rules)
			}
		}
		nFn++
		c.touch(fn)
		deferredErrOverwrite(c, cfg, fn)
		for _, ci := range calls(fn) {
			call, ok := ci.(*ssa.Call)
			if !ok {
				continue // defer / go
			}
			idx := errResultIndex(call.Call.Signature())
			if idx < 0 {
				continue
			}
			callee := calleeName(call)
			if callee == "" {
				callee = "dynamic:" + call.Call.Value.Type().String()
			}
			if _, ok := alwaysNilCallee[callee]; ok {
				continue
			}
			if errorConstructor[callee] {
				continue
			}
			nCalls++
			construct := fmt.Sprintf("%s -> %s", name, callee)
			e := resultOf(call, idx)
			if !hasUses(e) {
				// dropped
				switch {
				case bestEffortCallee[callee] != "" || callee == "crypto/rand.Read":
					c.ok(cfg.Rule, construct+" [best effort]", c.pos(call), bestEffortCallee[callee])
				case cleanupLike(callee) && inFailureContext(call):
					c.ok(cfg.Rule, construct+" [cleanup on a failure path]", c.pos(call), "error of a cleanup step inside a region reached only after another error")
				default:
					if reason, ok := cfg.exception(name, callee); ok {
						usedExc[name+"|"+callee] = true
						c.ok(cfg.Rule, construct+" [named exception]", c.pos(call), reason)
					} else {
						c.fail(cfg.Rule, construct+": error result is used", c.pos(call), "the error returned by "+callee+" is discarded on an acknowledgement path")
					}
				}
				continue
			}
			nWalk++
			retry := cfg.Retry[name+"|"+callee]
			var tol []string
			tolNote := ""
			if ex := cfg.exc(name, callee); ex != nil && len(ex.Tolerate) > 0 {
				tol = ex.Tolerate
				usedExc[name+"|"+callee] = true
				tolNote = " [tolerates " + strings.Join(tol, ", ") + ": " + ex.Reason + "]"
			}
			out, over := failStop(fn, call, retry, wantSig, tol...)
			if over {
				c.undecided(cfg.Rule, construct+": fail-stop", c.pos(call), "state budget exceeded")
				continue
			}
			if len(out) == 0 {
				c.ok(cfg.Rule, construct+": fail-stop"+tolNote, c.pos(call), "no success return reachable after a failure of this call")
				continue
			}
			if ex := cfg.exc(name, callee); ex != nil && len(ex.Tolerate) == 0 && !ex.DroppedOnly {
				usedExc[name+"|"+callee] = true
				c.ok(cfg.Rule, construct+" [named exception]", c.pos(call), ex.Reason)
				continue
			}
			o := out[0]
			detail := fmt.Sprintf("after a failure of %s a %s return at %s is reachable (%d such path(s))", callee, o.Kind, c.pos(o.Ret), len(out))
			c.fail(cfg.Rule, construct+": fail-stop", c.pos(call), detail, pathStr(c.P, o.Path)...)
		}
	}
	_ = usedExc
	_ = sort.Strings
	c.note(fmt.Sprintf("%s: cone of %d root(s): %d functions analysed, %d error-returning call sites, %d fail-stop walks", cfg.Rule, len(roots), nFn, nCalls, nWalk))
}

// deferredErrOverwrite (I2): a deferred closure that assigns the function's named
// error result must not be able to replace a non-nil error with nil
// (`defer func() { err = f.Close() }()` turns a failed copy into success).  An
// assignment is accepted when it happens only while the result is still nil,
// only with a value known to be non-nil, or with a value that wraps/joins the
// old one.
func deferredErrOverwrite(c *Ctx, cfg *EFConfig, fn *ssa.Function) {
	idx := errResultIndex(fn.Signature)
	if idx < 0 || fn.Signature.Results().At(idx).Name() == "" {
		return
	}
	resName := fn.Signature.Results().At(idx).Name()
	var cell *ssa.Alloc
	for _, b := range fn.Blocks {
		for _, in := range b.Instrs {
			if a, ok := in.(*ssa.Alloc); ok && a.Comment == resName && isErrorType(deref(a.Type())) {
				cell = a
			}
		}
	}
	if cell == nil {
		return
	}
	for _, g := range withClosures(fn) {
		if g == fn || !deferredOnly(g) {
			continue
		}
		for _, b := range g.Blocks {
			for _, in := range b.Instrs {
				st, ok := in.(*ssa.Store)
				if !ok || cellOf(st.Addr) != ssa.Value(cell) {
					continue
				}
				old := func(v ssa.Value) bool {
					u, ok := v.(*ssa.UnOp)
					return ok && u.Op == token.MUL && cellOf(u.X) == ssa.Value(cell)
				}
				okSt, why := false, ""
				if isNilConst(st.Val) {
					okSt, why = false, "assigns nil"
				}
				if g1, k1 := guardedBy(st, cmpFact(old, token.EQL, vNil(), "")); k1 > 0 && g1 {
					okSt, why = true, "only while the result is still nil"
				}
				v := st.Val
				if g2, k2 := guardedBy(st, cmpFact(func(x ssa.Value) bool { return x == v || sameValue(x, v) }, token.NEQ, vNil(), "")); !okSt && k2 > 0 && g2 {
					okSt, why = true, "only with a non-nil value"
				}
				if !okSt {
					all := true
					for _, o := range errOrigins(st.Val) {
						if nonNilMaker(o) {
							continue
						}
						if call, isCall := o.(*ssa.Call); isCall && (calleeName(call) == "errors.Join") {
							joined := false
							for _, a := range variadicElems(call) {
								if old(a) {
									joined = true
								}
							}
							if joined {
								continue
							}
						}
						all = false
					}
					if all && len(errOrigins(st.Val)) > 0 {
						okSt, why = true, "value is non-nil or joins the previous error"
					}
				}
				construct := fmt.Sprintf("%s: deferred assignment to the named error result %q keeps a previous error", fnName(fn), resName)
				if okSt {
					c.ok(cfg.Rule, construct, c.pos(st), why)
				} else {
					c.fail(cfg.Rule, construct, c.pos(st), "a deferred closure overwrites the error result unconditionally: an error returned by the body (a failed read/copy) is replaced by the cleanup's result and the caller sees success")
				}
			}
		}
	}
}
