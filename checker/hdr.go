package main

// Provenance rules for the LTX files litestream writes itself (shared by C01,
// C02, C13 and C17): header fields of (*DB).sync and snapshotReader, the page
// copy loops of writeLTXFromDB / writeLTXFromWAL.

import (
	"fmt"
	"go/token"

	"golang.org/x/tools/go/ssa"
)

var isPageMapCall = nameIs("(*ls.WALReader).pageMap")

// headerLiteral finds the ltx.Header literal passed to EncodeHeader in fn.
func headerLiteral(fn *ssa.Function) (ssa.CallInstruction, map[string]ssa.Value) {
	for _, f := range withClosures(fn) {
		for _, call := range callsTo(f, nameIs("(*ltx.Encoder).EncodeHeader")) {
			return call, compositeFields(refArgs(call)[1])
		}
	}
	return nil, nil
}

// commitRule checks Commit = walCommit when the WAL holds a commit frame, else file size / page size.
// The selection is either a phi or a captured variable overwritten under `walCommit > 0`.
func commitRule(c *Ctx, rule string, fn *ssa.Function, commit ssa.Value, at ssa.Instruction) {
	walCommit := vResult(isPageMapCall, 2)
	name := fnName(fn)
	okAll := true
	nWal, nFile := 0, 0
	detail := ""
	isWal := func(v ssa.Value) bool {
		os := origins(v)
		if len(os) == 0 {
			return false
		}
		sawCall := false
		for _, o := range os {
			if k, ok := o.(*ssa.Const); ok {
				if x, _ := constInt(k); x == 0 {
					continue
				}
				return false
			}
			if !walCommit(o) {
				return false
			}
			sawCall = true
		}
		return sawCall
	}
	gt := []FP{cmpFact(walCommit, token.GTR, vConstInt(0), ""), cmpFact(walCommit, token.NEQ, vConstInt(0), "")}
	le := []FP{cmpFact(walCommit, token.LEQ, vConstInt(0), ""), cmpFact(walCommit, token.EQL, vConstInt(0), "")}
	anyEdge := func(pred, blk *ssa.BasicBlock, fps []FP) bool {
		for _, fp := range fps {
			if edgeHasFact(pred, blk, fp) {
				return true
			}
		}
		return false
	}
	if u, ok := commit.(*ssa.UnOp); ok && u.Op == token.MUL && cellOf(u.X) != nil {
		// captured / address-taken variable: initial file-size value, overwritten under walCommit > 0
		cell := cellOf(u.X).(*ssa.Alloc)
		for _, f := range withClosures(cell.Parent()) {
			for _, b := range f.Blocks {
				for _, in := range b.Instrs {
					st, ok := in.(*ssa.Store)
					if !ok || cellOf(st.Addr) != ssa.Value(cell) {
						continue
					}
					switch {
					case isWal(st.Val):
						nWal++
						g, n := guardedBy(st, gt...)
						if n == 0 || !g {
							okAll, detail = false, "WAL commit value stored without the walCommit > 0 test"
						}
						// the decision precedes the use
						dom := false
						for _, e := range cutEdges(f, gt...) {
							if e.From.Parent() == u.Parent() && e.From.Dominates(u.Block()) {
								dom = true
							}
						}
						if !dom {
							okAll, detail = false, "the walCommit > 0 decision does not dominate the use of Commit"
						}
					case vBinOp(token.QUO, vAny(), vAny(), false)(st.Val):
						nFile++
					default:
						okAll, detail = false, fmt.Sprintf("unexpected source %T for the committed database size", st.Val)
					}
				}
			}
		}
		// the file-size value survives only when the WAL holds no commit frame: every
		// path to the use that bypasses the WAL-commit store passes a walCommit == 0 edge
		uf := u.Parent()
		avoid := map[*ssa.BasicBlock]bool{}
		for _, b := range uf.Blocks {
			for _, in := range b.Instrs {
				if st, ok := in.(*ssa.Store); ok && cellOf(st.Addr) == ssa.Value(cell) && isWal(st.Val) {
					avoid[b] = true
				}
			}
		}
		if len(avoid) > 0 {
			if reachableAvoiding(uf, nil, cutEdges(uf, le...), avoid)[u.Block()] {
				okAll, detail = false, "the database-file size is used as Commit on a path where the WAL may hold a commit frame (the bypass of the WAL-commit assignment is not conditioned on walCommit == 0)"
			}
		}
	} else {
		for _, inc := range incomings(commit) {
			switch {
			case isWal(inc.Val) && inc.Pred != nil:
				nWal++
				if !anyEdge(inc.Pred, inc.Blk, gt) {
					okAll, detail = false, "WAL commit value selected without the walCommit > 0 test"
				}
			case vBinOp(token.QUO, vAny(), vAny(), false)(inc.Val) && inc.Pred != nil:
				nFile++
				if !anyEdge(inc.Pred, inc.Blk, le) {
					okAll, detail = false, "file-size commit selected although the WAL holds a commit frame"
				}
			default:
				okAll, detail = false, fmt.Sprintf("unexpected source %T for the committed database size", inc.Val)
			}
		}
	}
	if nWal == 0 || nFile == 0 {
		okAll = false
		if detail == "" {
			detail = "Commit is not a selection between the WAL's last commit size and the database file size"
		}
	}
	c.check(okAll, rule, name+": header Commit = last WAL commit size when the WAL has a commit frame, else database file size / page size", c.pos(at), "selection over {walCommit on walCommit>0, fileSize/pageSize otherwise}", detail)
}

// ltxHeaderRules decides the header provenance of (*DB).sync.
func ltxHeaderRules(c *Ctx) {
	const rule = "H-header-provenance"
	fn := c.fn(rule, "(*ls.DB).sync")
	if fn == nil {
		return
	}
	name := fnName(fn)
	call, f := headerLiteral(fn)
	if call == nil || f == nil {
		c.fail(rule, name+": ltx.Header literal passed to EncodeHeader", c.P.Pos(fn.Pos()), "not found")
		return
	}
	txID := vPlusOne(vFieldPath("syncExecutor.pos", "Pos.TXID"))
	chk := func(field string, m VM, what string) {
		v, ok := f[field]
		c.check(ok && m(v), rule, fmt.Sprintf("%s: header %s = %s", name, field, what), c.pos(call), "provenance matches", "header field "+field+" does not derive from "+what)
	}
	chk("MinTXID", txID, "exec.pos.TXID + 1")
	chk("MaxTXID", txID, "exec.pos.TXID + 1")
	chk("WALOffset", vFieldLoad("syncInfo.offset", nil), "info.offset (verified cursor)")
	chk("WALSalt1", vFieldLoad("WALReader.salt1", nil), "reader salt1")
	chk("WALSalt2", vFieldLoad("WALReader.salt2", nil), "reader salt2")
	chk("PageSize", vFieldLoad("DB.pageSize", nil), "db.pageSize")
	if v, ok := f["Commit"]; ok {
		commitRule(c, rule, fn, v, call)
	} else {
		c.fail(rule, name+": header Commit set", c.pos(call), "missing")
	}
	// WALSize = maxOffset - info.offset (0 when nothing committed)
	maxOff := vResult(isPageMapCall, 1)
	if v, ok := f["WALSize"]; ok {
		good := true
		n := 0
		for _, o := range origins(v) {
			n++
			if k, isK := o.(*ssa.Const); isK {
				if x, _ := constInt(k); x != 0 {
					good = false
				}
				continue
			}
			if !vBinOp(token.SUB, maxOff, vFieldLoad("syncInfo.offset", nil), false)(o) {
				good = false
			}
		}
		c.check(good && n >= 1, rule, name+": header WALSize = pageMap maxOffset - info.offset (or 0)", c.pos(call), "provenance matches", "WALSize does not measure the committed WAL bytes copied by this file")
	}
	// staged file name and final name use the same TXID at level 0
	for _, lp := range callsTo(fn, nameIs("(*ls.DB).LTXPath")) {
		a := refArgs(lp)
		ok := len(a) == 4 && vConstInt(0)(a[1]) && txID(a[2]) && txID(a[3])
		c.check(ok, rule, name+": file name = LTXPath(0, txID, txID)", c.pos(lp), "level 0, same TXID", "the L0 file is not named after the allocated TXID")
	}
	// page copy: snapshot => full database copy, otherwise WAL pages (+growth)
	pm := vResult(isPageMapCall, 0)
	var hdrCommit ssa.Value = f["Commit"]
	for _, w := range callsTo(fn, nameIs("(*ls.DB).writeLTXFromDB")) {
		ok := sameValue(namedArg(w, "commit"), hdrCommit) && pm(namedArg(w, "pageMap"))
		c.check(ok, rule, name+": writeLTXFromDB(commit = header Commit, pageMap = pageMap result)", c.pos(w), "arguments match", "the snapshot body is written with a different size or page map than the header advertises")
	}
	ws := callsTo(fn, nameIs("(*ls.DB).writeLTXFromWAL"))
	c.floor(rule, len(ws), 1, "writeLTXFromWAL call in (*DB).sync")
	for _, w := range ws {
		ok := sameValue(namedArg(w, "commit"), hdrCommit) && pm(namedArg(w, "pageMap")) && vFieldLoad("syncInfo.prevCommit", nil)(namedArg(w, "prevCommit"))
		c.check(ok, rule, name+": writeLTXFromWAL(prevCommit = info.prevCommit, commit = header Commit, pageMap)", c.pos(w), "arguments match", "the incremental body is written with different bounds than the header advertises")
		c.requireGuard(rule, fn, Site{w, "incremental copy (writeLTXFromWAL)"}, truthFact(vFieldLoad("syncInfo.snapshotting", nil), false, "!info.snapshotting"))
	}
	// the encoder writes to the staged file
	for _, ne := range callsTo(fn, nameIs("ltx.NewEncoder")) {
		c.check(vCallResult(nameIs("slot:DB.openLTXFile"))(ne.Common().Args[0]), rule, name+": encoder writes to the staged file", c.pos(ne), "ltx.NewEncoder(staged file)", "encoder output is not the staged file")
	}
	// a snapshot never honours the byte budget (it must read the whole WAL)
	for _, p := range callsTo(fn, isPageMapCall) {
		mb := namedArg(p, "maxBytes")
		ok := false
		incs := incomings(mb)
		nz := 0
		for _, inc := range incs {
			if k, isK := inc.Val.(*ssa.Const); isK {
				if x, _ := constInt(k); x == 0 {
					nz++
					if inc.hasFact(truthFact(vFieldLoad("syncInfo.snapshotting", nil), true, "")) {
						ok = true
					}
				}
			}
		}
		other := false
		for _, inc := range incs {
			if _, isK := inc.Val.(*ssa.Const); !isK {
				if inc.hasFact(truthFact(vFieldLoad("syncInfo.snapshotting", nil), false, "")) {
					other = true
				}
			}
		}
		c.check(ok && other, rule, name+": pageMap budget is 0 (unbounded) when snapshotting", c.pos(p), "phi over {0 on snapshotting, maxSyncWALBytes otherwise}", "a snapshot can be cut by the byte budget (it would miss committed frames)")
	}
}

// syncResultRules: position/ack fields are set only after publication (C02-R3).
func syncResultRules(c *Ctx) {
	const rule = "R3-result-after-publication"
	fn := c.fn(rule, "(*ls.DB).sync")
	if fn == nil {
		return
	}
	name := fnName(fn)
	rn := callsTo(fn, nameIs("os.Rename"))
	fd := callsTo(fn, nameIs("ls/internal.FsyncDir"))
	c.floor(rule, len(rn), 1, "os.Rename in (*DB).sync")
	c.floor(rule, len(fd), 1, "FsyncDir in (*DB).sync")
	var sites []Site
	for _, st := range storesToField(fn, "syncResult.synced") {
		if vConstBool(true)(st.Val) {
			sites = append(sites, Site{st, "result.synced = true"})
		}
	}
	for _, st := range storesToField(fn, "syncResult.pos") {
		sites = append(sites, Site{st, "result.pos = ..."})
	}
	for _, st := range storesToField(fn, "syncResult.l0FileInfo") {
		sites = append(sites, Site{st, "result.l0FileInfo = ..."})
	}
	c.floor(rule, len(sites), 3, "result publication stores")
	for _, s := range sites {
		for _, r := range rn {
			c.requireGuard(rule, fn, s, cmpFact(vIs(resultOf(r, 0)), token.EQL, vNil(), "os.Rename err == nil"))
		}
		for _, d := range fd {
			c.requireGuard(rule, fn, s, cmpFact(vIs(resultOf(d, 0)), token.EQL, vNil(), "FsyncDir err == nil"))
		}
	}
	// newWALSize = info.offset + sz after publication; position from the encoder
	enc := vCallResult(nameIs("ltx.NewEncoder"))
	for _, st := range storesToField(fn, "syncResult.pos") {
		ok := false
		for _, o := range origins(st.Val) {
			if al, isA := o.(*ssa.Alloc); isA {
				for _, s := range cellStores(al) {
					if vCall("(*ltx.Encoder).PostApplyPos", enc)(s) {
						ok = true
					}
				}
			}
		}
		c.check(ok, rule, name+": result.pos = encoder's post-apply position", c.pos(st), "enc.PostApplyPos()", "the published position does not come from the file just written")
	}
}

// pageCopyRules: the two page copy loops (C01 skeleton, C17-R1).
func pageCopyRules(c *Ctx, rule string, lockOnly bool) {
	for _, fname := range []string{"(*ls.DB).writeLTXFromDB", "(*ls.DB).writeLTXFromWAL"} {
		root := c.fn(rule, fname)
		if root == nil {
			continue
		}
		pageCopyParts(c, rule, lockOnly, fname, root)
	}
}

// pageCopyParts runs the page-copy rules over a function and the phases it may have been
// split into; the instance floors apply to the sum over the parts.
func pageCopyParts(c *Ctx, rule string, lockOnly bool, fname string, root *ssa.Function) {
	isEncodePage := nameIs("(*ltx.Encoder).EncodePage")
	lockP := vResult(nameIs("ltx.LockPgno"), 0)
	name := fnName(root)
	c.floorBegin()
	defer c.floorEnd()
	var parts []*ssa.Function
	for _, f0 := range deepFuncs(root) {
		// closures too: a dense loop moved into a local func literal is still a dense loop
		parts = append(parts, withClosures(f0)...)
	}
	for _, fn := range parts {
		loops := naturalLoops(fn)
		counted := countedLoops(fn)
		c.floor(rule, len(counted), 1, "dense page loop in "+name)
		// LockPgno is computed from the database page size
		for _, lp := range callsTo(fn, nameIs("ltx.LockPgno")) {
			c.check(vFieldLoad("DB.pageSize", nil)(lp.Common().Args[0]), rule, name+": lock page computed from db.pageSize", c.pos(lp), "ltx.LockPgno(uint32(db.pageSize))", "lock page number computed from a different page size than the one used for page offsets")
		}
		for _, cl := range counted {
			if cl.Phi.Type().String() != "uint32" {
				continue
			}
			pg := vIs(cl.Phi)
			// uses of the dense page number: EncodePage and appends to the page list
			nUse := 0
			for _, call := range calls(fn) {
				if !cl.Header.Dominates(call.Block()) {
					continue
				}
				use := false
				switch calleeName(call) {
				case "(*ltx.Encoder).EncodePage":
					if v, ok := compositeFields(refArgs(call)[1])["Pgno"]; ok && pg(v) {
						use = true
					}
				case "builtin:append":
					for _, e := range appendedElems(call) {
						if e == ssa.Value(cl.Phi) {
							use = true
						}
					}
				}
				if !use {
					continue
				}
				nUse++
				c.requireGuard(rule, fn, Site{call, "use of dense page number (" + calleeName(call) + ")"}, cmpFact(pg, token.NEQ, lockP, "pgno != ltx.LockPgno(pageSize)"))
			}
			c.floor(rule, nUse, 1, "uses of the dense page number in "+name)
			// the loop is left only when pgno > commit (or through an error return): the lock page is skipped, never a stop
			if nl := innermostLoopOf(loops, cl.Latch); nl != nil {
				for b := range nl.Blocks {
					ifi, isIf := lastInstr(b).(*ssa.If)
					for i, sc := range b.Succs {
						if nl.Blocks[sc] {
							continue
						}
						// error exits are fine
						onlyErr := true
						rr := reachable(fn, sc, nil)
						for _, ret := range successReturns(fn) {
							if rr[ret.Block()] {
								onlyErr = false
							}
						}
						if onlyErr {
							continue
						}
						okExit := false
						if isIf {
							okExit = cmpFact(pg, token.GTR, vParam("commit"), "").holds(edgeFact(ifi, i))
						}
						c.check(okExit, rule, fmt.Sprintf("%s: the dense page loop (header block %d) is left only when pgno > commit", name, cl.Header.Index), c.pos(lastInstr(b)),
							"exit edge carries pgno > commit", "the loop can stop before the committed size is reached (e.g. at the lock page instead of skipping it): pages beyond it are silently missing from the LTX file")
					}
				}
			}
			if lockOnly {
				continue
			}
			// bounds of the dense loop
			if fname == "(*ls.DB).writeLTXFromDB" {
				c.check(vConstInt(1)(cl.Init), "L-page-copy", name+": dense loop starts at page 1", c.pos(cl.Inc), "init 1", "snapshot does not start at page 1")
			} else {
				c.check(vPlusOne(vParam("prevCommit"))(cl.Init), "L-page-copy", name+": growth loop starts at prevCommit+1", c.pos(cl.Inc), "init prevCommit+1", "growth pages do not start right after the previous database size")
				c.requireGuard("L-page-copy", fn, Site{cl.Inc, "growth loop"}, cmpFact(vParam("commit"), token.GTR, vParam("prevCommit"), "commit > prevCommit"))
			}
			if cl.Cond != nil {
				f := edgeFact(cl.Cond, 0)
				okB := false
				for i := range cl.Header.Succs {
					if cl.Header.Succs[i] == cl.Body {
						f = edgeFact(cl.Cond, i)
						okB = cmpFact(pg, token.LEQ, vParam("commit"), "").holds(f)
					}
				}
				c.check(okB, "L-page-copy", name+": dense loop runs while pgno <= commit", c.pos(cl.Cond), "pgno <= commit", "the loop bound is not the committed database size (inclusive)")
			}
		}
		if lockOnly {
			continue
		}
		// every iteration of a loop that encodes pages encodes one (or skips the lock page)
		encs := callsTo(fn, isEncodePage)
		c.floor("L-page-copy", len(encs), 1, "EncodePage calls in "+name)
		done := map[*NatLoop]bool{}
		for _, e := range encs {
			l := innermostLoopOf(loops, e.Block())
			if l == nil {
				c.fail("L-page-copy", name+": EncodePage inside a loop", c.pos(e), "EncodePage outside any loop")
				continue
			}
			// page header and buffer
			if v, ok := compositeFields(refArgs(e)[1])["Pgno"]; ok {
				_ = v
			} else {
				c.fail("L-page-copy", name+": EncodePage header has Pgno", c.pos(e), "missing Pgno")
			}
			if done[l] {
				continue
			}
			done[l] = true
			var cut []Edge
			for _, e2 := range encs {
				cut = append(cut, factEdges(fn, cmpFact(vIs(resultOf(e2, 0)), token.EQL, vNil(), ""))...)
			}
			for _, cl := range counted {
				cut = append(cut, factEdges(fn, cmpFact(vIs(cl.Phi), token.EQL, lockP, ""))...)
			}
			// start from the in-loop successors of the header
			bad := false
			for i, s := range l.Header.Succs {
				if !l.Blocks[s] {
					continue
				}
				isCutEdge := false
				for _, ce := range cut {
					if ce.From == l.Header && ce.Succ == i {
						isCutEdge = true
					}
				}
				if isCutEdge {
					continue
				}
				r := reachable(fn, s, cut)
				if r[l.Header] {
					bad = true
				}
			}
			c.check(!bad, "L-page-copy", fmt.Sprintf("%s: every iteration of the page loop (header block %d) encodes the page or skips the lock page", name, l.Header.Index), c.pos(e),
				"loop header unreachable from the body without a successful EncodePage", "an iteration can complete without encoding its page (the page would silently be missing from the LTX file)")
		}
		// page sources: WAL frame payload at pageMap[pgno]+24, database file at (pgno-1)*pageSize
		nWal, nDB := 0, 0
		for _, rd := range callsTo(fn, nameIs("(*os.File).ReadAt")) {
			a := refArgs(rd)
			switch {
			case vParam("walFile")(a[0]):
				nWal++
				ok := false
				for _, o := range origins(a[2]) {
					if b, isB := o.(*ssa.BinOp); isB && b.Op == token.ADD && vConstInt(24)(b.Y) {
						for _, oo := range origins(b.X) {
							if ex, isE := oo.(*ssa.Extract); isE && ex.Index == 0 {
								if lk, isL := ex.Tuple.(*ssa.Lookup); isL && vParam("pageMap")(lk.X) {
									ok = true
								}
							}
						}
					}
				}
				c.check(ok, "L-page-copy", name+": WAL page read at pageMap[pgno] + WALFrameHeaderSize", c.pos(rd), "offset provenance matches", "a WAL page is read from an offset that is not the frame payload recorded in the page map")
			case vFieldLoad("DB.f", nil)(a[0]):
				nDB++
				ok := vBinOp(token.MUL, vBinOp(token.SUB, vAny(), vConstInt(1), false), vFieldLoad("DB.pageSize", nil), true)(a[2])
				c.check(ok, "L-page-copy", name+": database page read at (pgno-1) * pageSize", c.pos(rd), "offset provenance matches", "a database page is read from the wrong offset")
			}
			// the buffer read into is the one encoded
			for _, e := range encs {
				if dominates(rd, e) && rd.Block() != nil {
					if reachable(fn, rd.Block(), nil)[e.Block()] && innermostLoopOf(loops, rd.Block()) == innermostLoopOf(loops, e.Block()) {
						_ = e
					}
				}
			}
		}
		c.floor("L-page-copy", nWal, 1, "WAL page reads in "+name)
		c.floor("L-page-copy", nDB, 1, "database page reads in "+name)
		for _, e := range encs {
			buf := refArgs(e)[2]
			okBuf := false
			for _, rd := range callsTo(fn, nameIs("(*os.File).ReadAt")) {
				if sameValue(refArgs(rd)[1], buf) {
					okBuf = true
				}
			}
			c.check(okBuf, "L-page-copy", name+": EncodePage encodes the buffer the page was read into", c.pos(e), "same buffer", "the encoded buffer is not the one filled by the page read")
		}
	}
}
