package main

// E1 — fail-stop walk: after a failure of call c in function F, no path may
// reach a success return (nil error) of F without c having been re-executed
// successfully (retry loops).  Path-sensitive over nil-ness facts of
// nil-able values and local/field cells.

import (
	"fmt"
	"go/token"
	"go/types"
	"sort"
	"strings"

	"golang.org/x/tools/go/ssa"
)

type nilSt int8

const (
	nsUnknown nilSt = iota
	nsNil
	nsNonNil
)

type cellKey struct {
	base ssa.Value
	fld  int
}

type fsState struct {
	env       map[ssa.Value]nilSt
	cells     map[cellKey]nilSt
	signalled bool // CloseWithError(non-nil) or sticky-error store passed
	fresh     bool // c has been re-executed
	hops      int
}

func (s *fsState) clone() *fsState {
	n := &fsState{env: make(map[ssa.Value]nilSt, len(s.env)), cells: make(map[cellKey]nilSt, len(s.cells)), signalled: s.signalled, fresh: s.fresh, hops: s.hops}
	for k, v := range s.env {
		n.env[k] = v
	}
	for k, v := range s.cells {
		n.cells[k] = v
	}
	return n
}

func (s *fsState) sig() string {
	var parts []string
	for k, v := range s.env {
		if v != nsUnknown {
			parts = append(parts, fmt.Sprintf("%s=%d", k.Name(), v))
		}
	}
	for k, v := range s.cells {
		if v != nsUnknown {
			parts = append(parts, fmt.Sprintf("c%s.%d=%d", k.base.Name(), k.fld, v))
		}
	}
	sort.Strings(parts)
	return fmt.Sprintf("%v|%v|%s", s.signalled, s.fresh, strings.Join(parts, ","))
}

// FSOutcome is one terminal path of the walk.
type FSOutcome struct {
	Ret   *ssa.Return
	Kind  string // "success", "unknown", "unsignalled"
	Path  []*ssa.BasicBlock
	Value ssa.Value
}

type fsWalker struct {
	fn        *ssa.Function
	c         ssa.CallInstruction
	e         ssa.Value
	retry     bool
	wantSig   bool // function has no error result: require a signal before returning
	seen      map[string]bool
	states    int
	out       []FSOutcome
	over      bool
	tolerated int
	tolerate  []string // extra tolerated predicates: "pkg.fn" or "errors.Is:pkg.Var" or "errors.As"
}

func (w *fsWalker) toleratedPredicate(call *ssa.Call) bool {
	nm := calleeName(call)
	for _, t := range w.tolerate {
		if i := strings.IndexByte(t, ':'); i >= 0 {
			if nm == t[:i] && len(call.Call.Args) == 2 && vGlobal(t[i+1:])(call.Call.Args[1]) {
				return true
			}
			continue
		}
		if nm == t {
			return true
		}
	}
	return false
}

const fsMaxStates = 100000

func nilable(t types.Type) bool {
	switch t.Underlying().(type) {
	case *types.Interface, *types.Pointer, *types.Slice, *types.Map, *types.Chan, *types.Signature:
		return true
	}
	return false
}

// boolean helpers whose true result implies a non-nil error argument
var errPredicates = map[string]bool{
	"errors.Is": true, "errors.As": true, "os.IsNotExist": true, "os.IsExist": true, "os.IsPermission": true,
	"ls.isDiskFullError": true, "ls.isSQLiteBusyError": true, "ls/s3.isPreconditionFailed": true, "ls/s3.isNotFoundError": true, "ls/s3.isNotExists": true,
	"(*ls.LTXError).IsAutoRecoverable": true,
}

func cellKeyOf(addr ssa.Value) (cellKey, bool) {
	switch a := addr.(type) {
	case *ssa.Alloc:
		return cellKey{a, -1}, true
	case *ssa.FreeVar:
		if c := cellOf(a); c != nil {
			return cellKey{c, -1}, true
		}
		return cellKey{a, -1}, true
	case *ssa.FieldAddr:
		base := a.X
		if l, ok := base.(*ssa.UnOp); ok && l.Op == token.MUL {
			// (*p).f where p itself is loaded from a cell: key on the cell
			if ck, ok := cellKeyOf(l.X); ok {
				return cellKey{ck.base, 1000*(ck.fld+2) + a.Field}, true
			}
		}
		return cellKey{base, a.Field}, true
	}
	return cellKey{}, false
}

func (w *fsWalker) eval(s *fsState, v ssa.Value) nilSt {
	if v == nil {
		return nsUnknown
	}
	if st, ok := s.env[v]; ok && st != nsUnknown {
		return st
	}
	switch x := v.(type) {
	case *ssa.Const:
		if x.Value == nil && nilable(x.Type()) {
			return nsNil
		}
		return nsNonNil
	case *ssa.MakeInterface, *ssa.Alloc, *ssa.MakeClosure, *ssa.MakeMap, *ssa.MakeSlice, *ssa.MakeChan, *ssa.Function, *ssa.FieldAddr, *ssa.IndexAddr:
		return nsNonNil
	case *ssa.ChangeInterface:
		return w.eval(s, x.X)
	case *ssa.ChangeType:
		return w.eval(s, x.X)
	case *ssa.Convert:
		return w.eval(s, x.X)
	case *ssa.Extract:
		if call, ok := x.Tuple.(*ssa.Call); ok && x.Index == errResultIndex(call.Call.Signature()) {
			if w.callPropagates(s, call) {
				return nsNonNil
			}
		}
	case *ssa.Call:
		if nonNilMaker(x) {
			return nsNonNil
		}
		if x.Call.Signature().Results().Len() == 1 && errResultIndex(x.Call.Signature()) == 0 && w.callPropagates(s, x) {
			return nsNonNil
		}
		switch calleeName(x) {
		case "errors.Join":
			// non-nil if any argument is non-nil
			for _, e := range variadicElems(x) {
				if w.eval(s, e) == nsNonNil {
					return nsNonNil
				}
			}
		}
	case *ssa.UnOp:
		if x.Op == token.MUL {
			if g, ok := x.X.(*ssa.Global); ok {
				if p, ok := g.Type().(*types.Pointer); ok && isErrorType(p.Elem()) {
					return nsNonNil // sentinel error variables
				}
			}
		}
	}
	return nsUnknown
}

func isSentinelLoad(v ssa.Value) bool {
	u, ok := v.(*ssa.UnOp)
	if !ok || u.Op != token.MUL {
		return false
	}
	g, ok := u.X.(*ssa.Global)
	if !ok {
		return false
	}
	p, ok := g.Type().(*types.Pointer)
	return ok && isErrorType(p.Elem())
}

// propagating reports the parameter indices i of fn such that a non-nil
// argument i implies a non-nil error result (decided by the same walk, from
// the function entry).
var propagatingCache = map[*ssa.Function]map[int]bool{}

func propagating(fn *ssa.Function) map[int]bool {
	if m, ok := propagatingCache[fn]; ok {
		return m
	}
	m := map[int]bool{}
	propagatingCache[fn] = m
	if fn == nil || fn.Blocks == nil || errResultIndex(fn.Signature) < 0 {
		return m
	}
	for i, p := range fn.Params {
		if !isErrorType(p.Type()) {
			continue
		}
		w := &fsWalker{fn: fn, e: p, seen: map[string]bool{}}
		s := &fsState{env: map[ssa.Value]nilSt{p: nsNonNil}, cells: map[cellKey]nilSt{}}
		w.walk(fn.Blocks[0], 0, nil, s, nil)
		if !w.over && len(w.out) == 0 {
			m[i] = true
		}
	}
	return m
}

func variadicElems(call *ssa.Call) []ssa.Value {
	var out []ssa.Value
	for _, a := range call.Call.Args {
		if sl, ok := a.(*ssa.Slice); ok {
			if al, ok := sl.X.(*ssa.Alloc); ok {
				for _, r := range *al.Referrers() {
					if ia, ok := r.(*ssa.IndexAddr); ok {
						for _, rr := range *ia.Referrers() {
							if st, ok := rr.(*ssa.Store); ok && st.Addr == ia {
								out = append(out, st.Val)
							}
						}
					}
				}
				continue
			}
		}
		out = append(out, a)
	}
	return out
}

func (w *fsWalker) callPropagates(s *fsState, call *ssa.Call) bool {
	g := call.Call.StaticCallee()
	if g == nil || g == w.fn {
		return false
	}
	off := 0
	if g.Signature.Recv() != nil {
		off = 1
	}
	_ = off
	for i := range propagating(g) {
		if i < len(call.Call.Args) && w.eval(s, call.Call.Args[i]) == nsNonNil {
			return true
		}
	}
	return false
}

// learn records a nil-ness fact about v (and the cell it was loaded from).
func (w *fsWalker) learn(s *fsState, v ssa.Value, st nilSt) {
	for {
		s.env[v] = st
		switch x := v.(type) {
		case *ssa.ChangeInterface:
			v = x.X
			continue
		case *ssa.ChangeType:
			v = x.X
			continue
		case *ssa.UnOp:
			if x.Op == token.MUL {
				if k, ok := cellKeyOf(x.X); ok {
					s.cells[k] = st
				}
			}
		}
		return
	}
}

func (w *fsWalker) walk(b *ssa.BasicBlock, idx int, prev *ssa.BasicBlock, s *fsState, path []*ssa.BasicBlock) {
	if w.over {
		return
	}
	for {
		if idx == 0 {
			key := fmt.Sprintf("%d<%d|%s", b.Index, blkIdx(prev), s.sig())
			if w.seen[key] {
				return
			}
			w.seen[key] = true
			w.states++
			if w.states > fsMaxStates {
				w.over = true
				return
			}
			path = append(path, b)
			// resolve phis simultaneously
			if prev != nil {
				pi := -1
				for i, p := range b.Preds {
					if p == prev {
						pi = i
					}
				}
				var vals []nilSt
				var phis []*ssa.Phi
				for _, in := range b.Instrs {
					phi, ok := in.(*ssa.Phi)
					if !ok {
						break
					}
					phis = append(phis, phi)
					if pi >= 0 {
						vals = append(vals, w.eval(s, phi.Edges[pi]))
					} else {
						vals = append(vals, nsUnknown)
					}
				}
				for i, phi := range phis {
					s.env[phi] = vals[i]
				}
			}
		}
		ins := b.Instrs
		for ; idx < len(ins); idx++ {
			in := ins[idx]
			switch x := in.(type) {
			case *ssa.Phi, *ssa.DebugRef:
				continue
			case *ssa.Store:
				if k, ok := cellKeyOf(x.Addr); ok {
					s.cells[k] = w.eval(s, x.Val)
					// sticky error fields count as a signal when a non-nil error is recorded
					if fa, ok := x.Addr.(*ssa.FieldAddr); ok && isErrorType(x.Val.Type()) && stickyErrFields[fieldAddrName(fa)] && s.cells[k] == nsNonNil {
						s.signalled = true
					}
				}
			case *ssa.UnOp:
				delete(s.env, x)
				if x.Op == token.MUL {
					if k, ok := cellKeyOf(x.X); ok {
						if st, ok := s.cells[k]; ok {
							s.env[x] = st
						}
					}
				}
			case *ssa.Extract:
				delete(s.env, x)
				if ssa.Value(x) == w.e {
					if !s.fresh {
						s.env[x] = nsNonNil
					}
				}
			case *ssa.Call:
				delete(s.env, x)
				if w.c != nil && ssa.Instruction(x) == ssa.Instruction(w.c.(ssa.Instruction)) {
					s = s.clone()
					s.fresh = true
					if ssa.Value(x) == w.e {
						delete(s.env, x)
					}
				}
				// a local closure that records its error argument in a captured cell
				// (`keepFirst := func(e error) { if e != nil && err == nil { err = e } }`)
				if mc, ok := x.Call.Value.(*ssa.MakeClosure); ok {
					if g, ok := mc.Fn.(*ssa.Function); ok {
						for pi, cell := range closureRecordsError(g) {
							if pi < len(x.Call.Args) && w.eval(s, x.Call.Args[pi]) == nsNonNil {
								s.cells[cellKey{cell, -1}] = nsNonNil
							}
						}
					}
				}
				// signal sinks
				nm := calleeName(x)
				if strings.HasSuffix(nm, ".CloseWithError") && len(x.Call.Args) >= 2 {
					if w.eval(s, x.Call.Args[1]) == nsNonNil {
						s.signalled = true
					}
				}
				if nm == "os.Exit" || nm == "log.Fatal" || nm == "log.Fatalf" {
					return
				}
			case *ssa.Panic:
				return
			case *ssa.Return:
				w.finish(x, s, path)
				return
			case *ssa.Jump:
				prev, b, idx = b, b.Succs[0], 0
				goto next
			case *ssa.If:
				t, f := b.Succs[0], b.Succs[1]
				takeT, takeF := true, true
				var learnT, learnF func(*fsState)
				cond := x.Cond
				neg := false
				for {
					if u, ok := cond.(*ssa.UnOp); ok && u.Op == token.NOT {
						cond = u.X
						neg = !neg
						continue
					}
					break
				}
				if bo, ok := cond.(*ssa.BinOp); ok && (bo.Op == token.EQL || bo.Op == token.NEQ) && (isNilConst(bo.X) || isNilConst(bo.Y)) {
					var other ssa.Value
					if isNilConst(bo.Y) {
						other = bo.X
					} else if isNilConst(bo.X) {
						other = bo.Y
					}
					if other != nil {
						isEq := bo.Op == token.EQL
						if neg {
							isEq = !isEq
						}
						st := w.eval(s, other)
						// redeeming: nil edge of the re-executed c
						nilEdgeIsTrue := isEq
						switch st {
						case nsNil:
							takeT, takeF = nilEdgeIsTrue, !nilEdgeIsTrue
						case nsNonNil:
							takeT, takeF = !nilEdgeIsTrue, nilEdgeIsTrue
						default:
							o := other
							ln := func(ns *fsState) { w.learn(ns, o, nsNil) }
							lnn := func(ns *fsState) { w.learn(ns, o, nsNonNil) }
							if nilEdgeIsTrue {
								learnT, learnF = ln, lnn
							} else {
								learnT, learnF = lnn, ln
							}
							if w.retry && s.fresh && w.isE(other) {
								// success of the retried call redeems this path
								if nilEdgeIsTrue {
									takeT = false
								} else {
									takeF = false
								}
							}
						}
					}
				} else if bo, ok := cond.(*ssa.BinOp); ok && (bo.Op == token.EQL || bo.Op == token.NEQ) && (isSentinelLoad(bo.X) || isSentinelLoad(bo.Y)) {
					// err == io.EOF style comparison
					sent, other := bo.Y, bo.X
					if isSentinelLoad(bo.X) {
						sent, other = bo.X, bo.Y
					}
					isEq := bo.Op == token.EQL
					if neg {
						isEq = !isEq
					}
					if w.eval(s, other) == nsNil {
						if isEq {
							takeT = false
						} else {
							takeF = false
						}
					} else {
						o := other
						l := func(ns *fsState) { w.learn(ns, o, nsNonNil) }
						tol := false
						if w.isE(other) && !s.fresh {
							g := sent.(*ssa.UnOp).X.(*ssa.Global)
							for _, t := range w.tolerate {
								if t == "errors.Is:"+shortName(g.String()) {
									tol = true
								}
							}
						}
						if isEq {
							learnT = l
							if tol {
								takeT = false
								w.tolerated++
							}
						} else {
							learnF = l
							if tol {
								takeF = false
								w.tolerated++
							}
						}
					}
				} else if call, ok := cond.(*ssa.Call); ok && isErrPredicate(call) {
					arg := call.Call.Args[0]
					// I7 not-exist tolerance: "the thing is not there" is an answer, not a failure
					notExist := calleeName(call) == "os.IsNotExist" || (calleeName(call) == "errors.Is" && len(call.Call.Args) == 2 && vGlobal("os.ErrNotExist")(call.Call.Args[1]))
					// built-in not-exist tolerance only for local file-system calls of package os
					if w.isE(arg) && !s.fresh && ((notExist && strings.HasPrefix(calleeName(w.c), "os.")) || w.toleratedPredicate(call)) {
						w.tolerated++
						if neg {
							takeF = false
						} else {
							takeT = false
						}
					}
					if w.eval(s, arg) == nsNil {
						// predicates are false on nil errors
						if neg {
							takeF = false
						} else {
							takeT = false
						}
					} else {
						a := arg
						l := func(ns *fsState) { w.learn(ns, a, nsNonNil) }
						if neg {
							learnF = l
						} else {
							learnT = l
						}
					}
				}
				if takeT && takeF {
					ns := s.clone()
					if learnT != nil {
						learnT(ns)
					}
					w.walk(t, 0, b, ns, append([]*ssa.BasicBlock(nil), path...))
					if learnF != nil {
						learnF(s)
					}
					prev, b, idx = b, f, 0
					goto next
				}
				if takeT {
					if learnT != nil {
						learnT(s)
					}
					prev, b, idx = b, t, 0
					goto next
				}
				if takeF {
					if learnF != nil {
						learnF(s)
					}
					prev, b, idx = b, f, 0
					goto next
				}
				return
			default:
				if v, ok := in.(ssa.Value); ok {
					delete(s.env, v)
				}
			}
		}
		return
	next:
		if w.over {
			return
		}
	}
}

func (w *fsWalker) isE(v ssa.Value) bool {
	if v == w.e {
		return true
	}
	for _, o := range origins(v) {
		if o == w.e {
			return true
		}
	}
	return false
}

func blkIdx(b *ssa.BasicBlock) int {
	if b == nil {
		return -1
	}
	return b.Index
}

// stickyErrFields are error fields whose non-nil value is reported by every later call.
var stickyErrFields = map[string]bool{"ResumableReader.err": true, "Hydrator.err": true}

func (w *fsWalker) finish(r *ssa.Return, s *fsState, path []*ssa.BasicBlock) {
	idx := errResultIndex(w.fn.Signature)
	if idx < 0 {
		if w.wantSig && !s.signalled {
			w.out = append(w.out, FSOutcome{Ret: r, Kind: "unsignalled", Path: path})
		}
		return
	}
	if s.signalled && w.wantSig {
		return
	}
	op := r.Results[idx]
	st := w.eval(s, op)
	switch st {
	case nsNonNil:
		return
	case nsNil:
		w.out = append(w.out, FSOutcome{Ret: r, Kind: "success", Path: path, Value: op})
	default:
		// wrappers around e (fmt.Errorf("...%w", e)) are non-nil; a different
		// unknown value may be nil
		for _, o := range errOrigins(retOperand(r, idx)) {
			if o == w.e || wrapsValue(o, w.e) || nonNilMaker(o) {
				continue
			}
			w.out = append(w.out, FSOutcome{Ret: r, Kind: "unknown", Path: path, Value: op})
			return
		}
	}
}

// failStop runs the walk for call c in fn.
func failStop(fn *ssa.Function, c ssa.CallInstruction, retry, wantSig bool, tolerate ...string) (out []FSOutcome, undecided bool) {
	idx := errResultIndex(c.Common().Signature())
	if idx < 0 {
		return nil, false
	}
	e := resultOf(c, idx)
	if e == nil {
		return []FSOutcome{{Kind: "dropped"}}, false
	}
	w := &fsWalker{fn: fn, c: c, e: e, retry: retry, wantSig: wantSig, seen: map[string]bool{}, tolerate: tolerate}
	s := &fsState{env: map[ssa.Value]nilSt{}, cells: map[cellKey]nilSt{}}
	if ssa.Value(c.Value()) == e {
		s.env[e] = nsNonNil
	}
	blk := c.Block()
	start := instrIndex(c) + 1
	// non-zero start index: do not memoise/resolve phis for the first block
	w.walkFrom(blk, start, s)
	return w.out, w.over
}

func (w *fsWalker) walkFrom(b *ssa.BasicBlock, idx int, s *fsState) {
	if idx == 0 {
		w.walk(b, 0, nil, s, nil)
		return
	}
	// inline first block tail
	w.walkTail(b, idx, s)
}

func (w *fsWalker) walkTail(b *ssa.BasicBlock, idx int, s *fsState) {
	// reuse walk by temporarily treating idx>0 (no memo, no phi resolution)
	w.walk(b, idx, nil, s, []*ssa.BasicBlock{b})
}

func pathStr(p *Prog, path []*ssa.BasicBlock) []string {
	var out []string
	for _, b := range path {
		pos := "-"
		for _, in := range b.Instrs {
			if in.Pos().IsValid() {
				pos = p.Pos(in.Pos())
				break
			}
		}
		out = append(out, fmt.Sprintf("block %d (%s) %s", b.Index, b.Comment, pos))
	}
	if len(out) > 30 {
		out = append(out[:14], append([]string{"..."}, out[len(out)-15:]...)...)
	}
	return out
}

var closureRecordsCache = map[*ssa.Function]map[int]ssa.Value{}

// closureRecordsError: for a closure without error result, the error parameters p (by
// index) that are recorded in a captured cell C whenever p is non-nil: every path from
// the entry to a return stores p into C unless it passes an edge on which p == nil or
// C already holds a non-nil error.  After the call, C is non-nil if the argument was.
func closureRecordsError(g *ssa.Function) map[int]ssa.Value {
	if m, ok := closureRecordsCache[g]; ok {
		return m
	}
	m := map[int]ssa.Value{}
	closureRecordsCache[g] = m
	if g == nil || g.Blocks == nil || g.Parent() == nil || errResultIndex(g.Signature) >= 0 {
		return m
	}
	for pi, p := range g.Params {
		if !isErrorType(p.Type()) {
			continue
		}
		var cell ssa.Value
		avoid := map[*ssa.BasicBlock]bool{}
		other := false
		for _, b := range g.Blocks {
			for _, in := range b.Instrs {
				st, ok := in.(*ssa.Store)
				if !ok {
					continue
				}
				fv, isFV := st.Addr.(*ssa.FreeVar)
				if !isFV || !isErrorType(deref(fv.Type())) {
					continue
				}
				if st.Val == ssa.Value(p) {
					if c := cellOf(fv); c != nil {
						cell = c
						avoid[b] = true
					}
				} else {
					other = true
				}
			}
		}
		if cell == nil || other {
			continue
		}
		pp := p
		isCellLoad := func(v ssa.Value) bool {
			u, ok := v.(*ssa.UnOp)
			return ok && u.Op == token.MUL && cellOf(u.X) == cell
		}
		cut := factEdgesAlts(g, 3,
			cmpFact(func(v ssa.Value) bool { return v == ssa.Value(pp) }, token.EQL, vNil(), ""),
			cmpFact(isCellLoad, token.NEQ, vNil(), ""))
		r := reachableAvoiding(g, nil, cut, avoid)
		ok := true
		for _, ret := range returns(g) {
			if r[ret.Block()] && !avoid[ret.Block()] {
				ok = false
			}
		}
		if ok {
			m[pi] = cell
		}
	}
	return m
}
