package main

// SSA query helpers: callee identity, value provenance (E6), branch facts and
// edge-cut reachability (E3).

import (
	"go/constant"
	"go/token"
	"go/types"
	"strings"

	"golang.org/x/tools/go/ssa"
)

// ---------------------------------------------------------------------------
// callee identity

// calleeName returns the short name of the statically known callee of a call,
// "iface:<pkg.Type>.<Method>" for interface method calls, "slot:<field>" for a
// call through a function-typed struct field, or "" otherwise.
func calleeName(c ssa.CallInstruction) string {
	cc := c.Common()
	if cc.IsInvoke() {
		recv := cc.Value.Type()
		return "iface:" + shortName(types.TypeString(recv, nil)) + "." + cc.Method.Name()
	}
	if f := cc.StaticCallee(); f != nil {
		if o := f.Origin(); o != nil {
			f = o
		}
		return canonName(shortName(f.String()))
	}
	// builtin
	if b, ok := cc.Value.(*ssa.Builtin); ok {
		return "builtin:" + b.Name()
	}
	// call through a function-valued field: *FieldAddr or Field
	v := cc.Value
	if u, ok := v.(*ssa.UnOp); ok && u.Op == token.MUL {
		if fa, ok := u.X.(*ssa.FieldAddr); ok {
			return "slot:" + fieldAddrName(fa)
		}
	}
	if f, ok := v.(*ssa.Field); ok {
		return "slot:" + fieldName(f.X.Type(), f.Field)
	}
	return ""
}

func fieldName(t types.Type, idx int) string {
	t = deref(t)
	st, ok := t.Underlying().(*types.Struct)
	if !ok || idx >= st.NumFields() {
		return "?"
	}
	tn := "struct"
	if n, ok := types.Unalias(t).(*types.Named); ok {
		tn = n.Obj().Name()
	}
	return tn + "." + st.Field(idx).Name()
}

func fieldAddrName(fa *ssa.FieldAddr) string { return fieldName(fa.X.Type(), fa.Field) }

func deref(t types.Type) types.Type {
	if p, ok := t.Underlying().(*types.Pointer); ok {
		return p.Elem()
	}
	return t
}

// calls returns every call-like instruction (call, defer, go) of fn in block order.
func calls(fn *ssa.Function) []ssa.CallInstruction {
	var out []ssa.CallInstruction
	for _, b := range fn.Blocks {
		for _, in := range b.Instrs {
			if c, ok := in.(ssa.CallInstruction); ok {
				out = append(out, c)
			}
		}
	}
	return out
}

// callsTo returns the calls in fn whose callee name satisfies pred.
func callsTo(fn *ssa.Function, pred func(string) bool) []ssa.CallInstruction {
	var out []ssa.CallInstruction
	for _, c := range calls(fn) {
		if pred(calleeName(c)) {
			out = append(out, c)
		}
	}
	return out
}

func nameIs(names ...string) func(string) bool {
	return func(s string) bool {
		for _, n := range names {
			if s == n {
				return true
			}
		}
		return false
	}
}

func nameHasSuffix(suf ...string) func(string) bool {
	return func(s string) bool {
		for _, n := range suf {
			if strings.HasSuffix(s, n) {
				return true
			}
		}
		return false
	}
}

// resultOf returns the SSA value of result idx of call c (the call itself for a
// single result, otherwise its Extract), or nil.
func resultOf(c ssa.CallInstruction, idx int) ssa.Value {
	v := c.Value()
	if v == nil {
		return nil
	}
	sig := c.Common().Signature()
	if sig.Results().Len() == 1 {
		if idx == 0 {
			return v
		}
		return nil
	}
	for _, r := range *v.Referrers() {
		if e, ok := r.(*ssa.Extract); ok && e.Index == idx {
			return e
		}
	}
	return nil
}

// errResultIndex returns the index of the trailing error result of sig or -1.
func errResultIndex(sig *types.Signature) int {
	n := sig.Results().Len()
	if n == 0 {
		return -1
	}
	if isErrorType(sig.Results().At(n - 1).Type()) {
		return n - 1
	}
	return -1
}

func isErrorType(t types.Type) bool {
	n, ok := types.Unalias(t).(*types.Named)
	return ok && n.Obj().Pkg() == nil && n.Obj().Name() == "error"
}

// ---------------------------------------------------------------------------
// value provenance (E6)

// origins computes the set of root values v can take: it looks through phis,
// conversions, interface wrapping and loads of local cells (Allocs) whose
// stores are all visible in the enclosing function and its closures.
func origins(v ssa.Value) []ssa.Value { return originsOpt(v, false) }

// errOrigins is origins but keeps MakeInterface values (a non-nil interface) as leaves.
func errOrigins(v ssa.Value) []ssa.Value { return originsOpt(v, true) }

func originsOpt(v ssa.Value, keepMakeIface bool) []ssa.Value {
	seen := map[ssa.Value]bool{}
	var out []ssa.Value
	var walk func(v ssa.Value)
	walk = func(v ssa.Value) {
		if v == nil || seen[v] {
			return
		}
		seen[v] = true
		switch x := v.(type) {
		case *ssa.Phi:
			for _, e := range x.Edges {
				walk(e)
			}
		case *ssa.ChangeType:
			walk(x.X)
		case *ssa.Convert:
			walk(x.X)
		case *ssa.ChangeInterface:
			walk(x.X)
		case *ssa.MakeInterface:
			if keepMakeIface {
				out = append(out, v)
			} else {
				walk(x.X)
			}
		case *ssa.Call:
			// builtin max/min select one of their arguments
			if b, ok := x.Call.Value.(*ssa.Builtin); ok && (b.Name() == "max" || b.Name() == "min") {
				for _, a := range x.Call.Args {
					walk(a)
				}
				return
			}
			if more := interprocOrigins(x, nil, len(seen)); more != nil {
				for _, m := range more {
					walk(m)
				}
				return
			}
			out = append(out, v)
		case *ssa.Extract:
			if c, ok := x.Tuple.(*ssa.Call); ok {
				if more := interprocOrigins(c, x, len(seen)); more != nil {
					for _, m := range more {
						walk(m)
					}
					return
				}
			}
			out = append(out, v)
		case *ssa.Parameter:
			if more := paramOrigins(x, len(seen)); more != nil {
				// keep the parameter itself as an origin too (matchers by parameter name still apply)
				out = append(out, v)
				for _, m := range more {
					walk(m)
				}
				return
			}
			out = append(out, v)
		case *ssa.UnOp:
			if x.Op == token.MUL {
				// a field of a struct-typed parameter (arguments bundled into a struct): the
				// corresponding field of the literal built at every production call site
				if fa, ok := x.X.(*ssa.FieldAddr); ok {
					if more := structParamFieldOrigins(fa); more != nil {
						for _, m := range more {
							walk(m)
						}
						return
					}
				}
				// `p.f = v; ... p.f` within one block: the field holds v
				if fa, ok := x.X.(*ssa.FieldAddr); ok && x.Block() != nil {
					blk := x.Block()
					for k := instrIndex(x) - 1; k >= 0; k-- {
						if s, ok := blk.Instrs[k].(*ssa.Store); ok {
							if fb, ok := s.Addr.(*ssa.FieldAddr); ok && fb.Field == fa.Field && fb.X == fa.X {
								walk(s.Val)
								return
							}
						}
						if _, isCall := blk.Instrs[k].(*ssa.Call); isCall {
							break // a call may have changed the field
						}
					}
				}
				// a field of a local struct that extracted helpers update through a pointer
				// (two locals bundled into `var span txidSpan; span.extend(info)`)
				// a field the reference struct did not have (a parameter promoted to receiver
				// state): what production code stores into it
				if fa, ok := x.X.(*ssa.FieldAddr); ok {
					if more := newFieldValues(fa); len(more) > 0 {
						for _, m := range more {
							walk(m)
						}
						return
					}
				}
				if fa, ok := x.X.(*ssa.FieldAddr); ok {
					if more := localStructFieldValues(fa); more != nil {
						for _, m := range more {
							walk(m)
						}
						return
					}
				}
				if cell := cellOf(x.X); cell != nil {
					// flow-sensitive within the block: the nearest preceding store wins
					if blk := x.Block(); blk != nil {
						found := false
						for k := instrIndex(x) - 1; k >= 0 && !found; k-- {
							if s, ok := blk.Instrs[k].(*ssa.Store); ok && cellOf(s.Addr) == cell {
								walk(s.Val)
								found = true
							}
						}
						if found {
							return
						}
					}
					st := cellStores(cell)
					if len(st) > 0 {
						for _, s := range st {
							walk(s)
						}
						return
					}
				}
			}
			out = append(out, v)
		default:
			out = append(out, v)
		}
	}
	walk(v)
	return out
}

// cellOf returns the Alloc (local or captured variable) an address denotes.
func cellOf(addr ssa.Value) ssa.Value {
	switch a := addr.(type) {
	case *ssa.Alloc:
		return a
	case *ssa.FreeVar:
		// map back to the binding in the parent closure creation
		fn := a.Parent()
		if fn == nil || fn.Parent() == nil {
			return nil
		}
		idx := -1
		for i, fv := range fn.FreeVars {
			if fv == a {
				idx = i
			}
		}
		if idx < 0 {
			return nil
		}
		for _, b := range fn.Parent().Blocks {
			for _, in := range b.Instrs {
				if mc, ok := in.(*ssa.MakeClosure); ok && mc.Fn == fn && idx < len(mc.Bindings) {
					return cellOf(mc.Bindings[idx])
				}
			}
		}
	}
	return nil
}

// cellStores returns the values stored to a cell anywhere in its function and
// nested closures.
func cellStores(cell ssa.Value) []ssa.Value {
	al, ok := cell.(*ssa.Alloc)
	if !ok {
		return nil
	}
	var out []ssa.Value
	for _, fn := range withClosures(al.Parent()) {
		for _, b := range fn.Blocks {
			for _, in := range b.Instrs {
				if st, ok := in.(*ssa.Store); ok && cellOf(st.Addr) == cell {
					out = append(out, st.Val)
				}
			}
		}
	}
	return out
}

// VM is a value matcher.
type VM func(v ssa.Value) bool

// anyOrigin lifts a matcher over the origins of a value.
func anyOrigin(m VM) VM {
	return func(v ssa.Value) bool {
		for _, o := range origins(v) {
			if m(o) {
				return true
			}
		}
		return false
	}
}

// directOrOrigin matches v itself or any of its origins.
func directOrOrigin(m VM) VM {
	inner := anyOrigin(m)
	return func(v ssa.Value) bool { return v != nil && (m(v) || inner(v)) }
}

// allOrigins requires every origin to match (and at least one).
func allOrigins(m VM) VM {
	return func(v ssa.Value) bool {
		os := origins(v)
		if len(os) == 0 {
			return false
		}
		for _, o := range os {
			if !m(o) {
				return false
			}
		}
		return true
	}
}

func vAny() VM { return func(ssa.Value) bool { return true } }

func vOr(ms ...VM) VM {
	return func(v ssa.Value) bool {
		for _, m := range ms {
			if m(v) {
				return true
			}
		}
		return false
	}
}

// vIs matches one specific SSA value (through origins).
func vIs(w ssa.Value) VM {
	inner := anyOrigin(func(v ssa.Value) bool { return v == w })
	return func(v ssa.Value) bool { return v == w || inner(v) }
}

// vConstInt matches an integer constant with the given value.
func vConstInt(n int64) VM {
	isN := func(v ssa.Value) bool {
		c, ok := v.(*ssa.Const)
		if !ok || c.Value == nil || c.Value.Kind() != constant.Int {
			return false
		}
		x, ok := constant.Int64Val(c.Value)
		return ok && x == n
	}
	// a constant is matched only when the value cannot be anything else: every
	// origin is that constant (a variable that is *sometimes* 0 is not "0")
	return func(v ssa.Value) bool {
		os := origins(v)
		if len(os) == 0 {
			return false
		}
		for _, o := range os {
			if _, isParam := o.(*ssa.Parameter); isParam && len(os) > 1 {
				continue // the parameter of a virtually inlined helper, next to its arguments
			}
			if !isN(o) {
				return false
			}
		}
		return true
	}
}

func isNilConst(v ssa.Value) bool {
	c, ok := v.(*ssa.Const)
	return ok && c.Value == nil
}

func vNil() VM { return func(v ssa.Value) bool { return isNilConst(v) } }

// vParam matches the parameter (or receiver) called name.
func vParam(name string) VM {
	return anyOrigin(func(v ssa.Value) bool {
		p, ok := v.(*ssa.Parameter)
		return ok && refParamName(p) == name
	})
}

// vFieldLoad matches a read of field `field` (Type.field form, e.g.
// "FileInfo.MaxTXID") from a base satisfying base (nil = any).
func vFieldLoad(field string, base VM) VM {
	return directOrOrigin(func(v ssa.Value) bool {
		switch x := v.(type) {
		case *ssa.UnOp:
			if x.Op != token.MUL {
				return false
			}
			fa, ok := x.X.(*ssa.FieldAddr)
			if !ok || fieldAddrName(fa) != field {
				return false
			}
			if base == nil || base(fa.X) {
				return true
			}
			// struct value held in a local cell: match what was stored into it
			if cell := cellOf(fa.X); cell != nil {
				for _, s := range cellStores(cell) {
					if base(s) {
						return true
					}
				}
			}
			return false
		case *ssa.Field:
			if fieldName(x.X.Type(), x.Field) != field {
				return false
			}
			return base == nil || base(x.X)
		}
		return false
	})
}

// vResult matches result idx of a call to a callee satisfying pred.
func vResult(pred func(string) bool, idx int) VM {
	return anyOrigin(func(v ssa.Value) bool {
		switch x := v.(type) {
		case *ssa.Call:
			return idx == 0 && x.Common().Signature().Results().Len() == 1 && pred(calleeName(x))
		case *ssa.Extract:
			c, ok := x.Tuple.(*ssa.Call)
			return ok && x.Index == idx && pred(calleeName(c))
		}
		return false
	})
}

// vCallResult matches any value produced by a call to pred (any result index).
func vCallResult(pred func(string) bool) VM {
	return anyOrigin(func(v ssa.Value) bool {
		switch x := v.(type) {
		case *ssa.Call:
			return pred(calleeName(x))
		case *ssa.Extract:
			c, ok := x.Tuple.(*ssa.Call)
			return ok && pred(calleeName(c))
		}
		return false
	})
}

// vBinOp matches X op Y (either order when commutative is set).
func vBinOp(op token.Token, x, y VM, commutative bool) VM {
	return anyOrigin(func(v ssa.Value) bool {
		b, ok := v.(*ssa.BinOp)
		if !ok || b.Op != op {
			return false
		}
		if x(b.X) && y(b.Y) {
			return true
		}
		return commutative && x(b.Y) && y(b.X)
	})
}

// vPlusOne matches base+1.
func vPlusOne(base VM) VM { return vBinOp(token.ADD, base, vConstInt(1), true) }

// ---------------------------------------------------------------------------
// branch facts

// Fact is what is known to hold on one out-edge of an If.
type Fact struct {
	// Comparison L Op R (Op one of EQL NEQ LSS LEQ GTR GEQ), or, when Op is
	// ILLEGAL, the truth value Truth of boolean value L.
	L, R  ssa.Value
	Op    token.Token
	Truth bool
}

func negOp(op token.Token) token.Token {
	switch op {
	case token.EQL:
		return token.NEQ
	case token.NEQ:
		return token.EQL
	case token.LSS:
		return token.GEQ
	case token.LEQ:
		return token.GTR
	case token.GTR:
		return token.LEQ
	case token.GEQ:
		return token.LSS
	}
	return token.ILLEGAL
}

func swapOp(op token.Token) token.Token {
	switch op {
	case token.LSS:
		return token.GTR
	case token.LEQ:
		return token.GEQ
	case token.GTR:
		return token.LSS
	case token.GEQ:
		return token.LEQ
	}
	return op
}

// implies reports whether (a have b) entails (a want b).
func implies(have, want token.Token) bool {
	if have == want {
		return true
	}
	switch want {
	case token.LEQ:
		return have == token.LSS || have == token.EQL
	case token.GEQ:
		return have == token.GTR || have == token.EQL
	case token.NEQ:
		return have == token.LSS || have == token.GTR
	}
	return false
}

// edgeFact returns the fact that holds when control leaves `ifi` through
// successor index edge (0 = true, 1 = false).
func edgeFact(ifi *ssa.If, edge int) Fact {
	truth := edge == 0
	c := ifi.Cond
	for {
		if u, ok := c.(*ssa.UnOp); ok && u.Op == token.NOT {
			c = u.X
			truth = !truth
			continue
		}
		break
	}
	if b, ok := c.(*ssa.BinOp); ok && negOp(b.Op) != token.ILLEGAL {
		op := b.Op
		if !truth {
			op = negOp(op)
		}
		return Fact{L: b.X, R: b.Y, Op: op}
	}
	return Fact{L: c, Truth: truth}
}

// FP is a fact pattern.
type FP struct {
	// comparison form
	L, R VM
	Op   token.Token
	// truth form (Op == ILLEGAL): boolean value matching B has value Truth
	B     VM
	Truth bool
	Desc  string
}

func cmpFact(l VM, op token.Token, r VM, desc string) FP { return FP{L: l, R: r, Op: op, Desc: desc} }
func truthFact(b VM, truth bool, desc string) FP        { return FP{B: b, Truth: truth, Desc: desc} }

// holds reports whether fact f entails pattern p.
func (p FP) holds(f Fact) bool {
	if p.Op == token.ILLEGAL {
		return f.Op == token.ILLEGAL && f.Truth == p.Truth && p.B(f.L)
	}
	if f.Op == token.ILLEGAL {
		// a true error predicate (os.IsNotExist(err), errors.Is(err, x), ...) entails err != nil
		if p.Op == token.NEQ && f.Truth {
			if call, ok := f.L.(*ssa.Call); ok && isErrPredicate(call) {
				if p.L(call.Call.Args[0]) && p.R(ssa.NewConst(nil, call.Call.Args[0].Type())) {
					return true
				}
			}
		}
		return false
	}
	if implies(f.Op, p.Op) && p.L(f.L) && p.R(f.R) {
		return true
	}
	if implies(swapOp(f.Op), p.Op) && p.L(f.R) && p.R(f.L) {
		return true
	}
	return false
}

// Edge is a CFG edge: successor index `Succ` of block `From`.
type Edge struct {
	From *ssa.BasicBlock
	Succ int
}

// factEdges returns every If out-edge in fn on which pattern p holds.
func factEdges(fn *ssa.Function, p FP) []Edge { return factEdgesAlts(fn, 0, p) }

// factEdgesAlts returns every If out-edge of fn on which one of the
// alternative patterns is established: directly by the branch condition, by a
// conjunct of a short-circuit boolean, by a disjunction all of whose members
// are alternatives, or inside a virtually inlined helper whose result is tested.
func factEdgesAlts(fn *ssa.Function, depth int, alts ...FP) []Edge {
	var out []Edge
	anyHolds := func(f Fact) bool {
		for _, p := range alts {
			if p.holds(f) {
				return true
			}
		}
		return false
	}
	for _, b := range fn.Blocks {
		if len(b.Instrs) == 0 {
			continue
		}
		ifi, ok := b.Instrs[len(b.Instrs)-1].(*ssa.If)
		if !ok {
			continue
		}
		for e := 0; e < 2; e++ {
			f := edgeFact(ifi, e)
			if anyHolds(f) {
				out = append(out, Edge{b, e})
				continue
			}
			if f.Op != token.ILLEGAL {
				// err == nil on the result of a virtually inlined helper
				if f.Op == token.EQL && isNilConst(f.R) {
					if h, isErr := helperOfResult(f.L); h != nil && isErr {
						if calleeEstablishes(h, true, true, alts, depth) {
							out = append(out, Edge{b, e})
						}
					}
				}
				// (non-)nil pointer result of a virtually inlined helper
				if (f.Op == token.EQL || f.Op == token.NEQ) && isNilConst(f.R) && !isErrorType(f.L.Type()) {
					if call, ok := f.L.(*ssa.Call); ok {
						if h := call.Call.StaticCallee(); h != nil && calleeEstablishesNil(h, f.Op == token.EQL, alts, depth) {
							out = append(out, Edge{b, e})
						}
					}
				}
				continue
			}
			// boolean built by && / ||
			conj, disj := boolStructure(f.L, f.Truth, 0)
			hit := false
			for _, cf := range conj {
				if anyHolds(cf) {
					hit = true
				}
			}
			if !hit && len(disj) > 0 {
				all := true
				for _, df := range disj {
					if !anyHolds(df) {
						all = false
					}
				}
				hit = all
			}
			if !hit {
				// boolean result of a virtually inlined helper
				if call, ok := f.L.(*ssa.Call); ok {
					if h := call.Call.StaticCallee(); h != nil {
						hit = calleeEstablishes(h, false, f.Truth, alts, depth)
					}
				}
			}
			if hit {
				out = append(out, Edge{b, e})
			}
		}
	}
	return out
}

// helperOfResult: v is the error result of a call to a virtually inlined helper.
func helperOfResult(v ssa.Value) (*ssa.Function, bool) {
	for _, o := range errOriginsLocal(v) {
		switch x := o.(type) {
		case *ssa.Call:
			if h := x.Call.StaticCallee(); isNewHelper(h) && errResultIndex(x.Call.Signature()) == 0 && x.Call.Signature().Results().Len() == 1 {
				return h, true
			}
		case *ssa.Extract:
			if c, ok := x.Tuple.(*ssa.Call); ok {
				if h := c.Call.StaticCallee(); isNewHelper(h) && x.Index == errResultIndex(c.Call.Signature()) {
					return h, true
				}
			}
		}
	}
	return nil, false
}

// errOriginsLocal resolves v through in-block cell stores only (no interprocedural expansion).
func errOriginsLocal(v ssa.Value) []ssa.Value {
	if u, ok := v.(*ssa.UnOp); ok && u.Op == token.MUL {
		if cell := cellOf(u.X); cell != nil && u.Block() != nil {
			blk := u.Block()
			for k := instrIndex(u) - 1; k >= 0; k-- {
				if s, ok := blk.Instrs[k].(*ssa.Store); ok && cellOf(s.Addr) == cell {
					return []ssa.Value{s.Val}
				}
			}
		}
	}
	return []ssa.Value{v}
}

// boolStructure decomposes a boolean value known to be `truth` into facts:
// conj (all hold) or disj (at least one holds).  It understands the phi shapes
// go/ssa produces for `A && B` and `A || B`.
func boolStructure(v ssa.Value, truth bool, depth int) (conj, disj []Fact) {
	if depth > 3 {
		return nil, nil
	}
	atom := func(x ssa.Value, t bool) Fact {
		for {
			if u, ok := x.(*ssa.UnOp); ok && u.Op == token.NOT {
				x, t = u.X, !t
				continue
			}
			break
		}
		if b, ok := x.(*ssa.BinOp); ok && negOp(b.Op) != token.ILLEGAL {
			op := b.Op
			if !t {
				op = negOp(op)
			}
			return Fact{L: b.X, R: b.Y, Op: op}
		}
		return Fact{L: x, Truth: t}
	}
	phi, ok := v.(*ssa.Phi)
	if !ok || len(phi.Edges) != 2 {
		return nil, nil
	}
	for i := 0; i < 2; i++ {
		k, isK := phi.Edges[i].(*ssa.Const)
		if !isK || k.Value == nil {
			continue
		}
		kv := k.Value.String() == "true"
		other := phi.Edges[1-i]
		pred := phi.Block().Preds[i]
		ifi, isIf := lastInstr(pred).(*ssa.If)
		if !isIf {
			continue
		}
		// which edge of pred's If leads to the phi block
		si := -1
		for j, s := range pred.Succs {
			if s == phi.Block() {
				si = j
			}
		}
		if si < 0 {
			continue
		}
		a := edgeFact(ifi, si)   // fact under which the constant was selected
		na := edgeFact(ifi, 1-si) // fact under which `other` was evaluated
		if !kv {
			// A && B : const false selected when !A
			if truth {
				conj = append(conj, na, atom(other, true))
			} else {
				disj = append(disj, a, atom(other, false))
			}
		} else {
			// A || B : const true selected when A
			if truth {
				disj = append(disj, a, atom(other, true))
			} else {
				conj = append(conj, na, atom(other, false))
			}
		}
		return conj, disj
	}
	return nil, nil
}

// reachable returns the blocks reachable from `from` (the entry block when
// nil) without traversing any cut edge.  If from is given together with
// fromInstr semantics the caller handles intra-block ordering itself.
func reachable(fn *ssa.Function, from *ssa.BasicBlock, cut []Edge) map[*ssa.BasicBlock]bool {
	if len(fn.Blocks) == 0 {
		return nil
	}
	if from == nil {
		from = fn.Blocks[0]
	}
	isCut := func(b *ssa.BasicBlock, i int) bool {
		for _, e := range cut {
			if e.From == b && e.Succ == i {
				return true
			}
		}
		return false
	}
	seen := map[*ssa.BasicBlock]bool{from: true}
	work := []*ssa.BasicBlock{from}
	for len(work) > 0 {
		b := work[len(work)-1]
		work = work[:len(work)-1]
		for i, s := range b.Succs {
			if isCut(b, i) || seen[s] {
				continue
			}
			seen[s] = true
			work = append(work, s)
		}
	}
	return seen
}

// reachableAfter is like reachable but starts from the successors of block b
// (b itself is included only if it lies on a cycle).
func reachableAfter(fn *ssa.Function, b *ssa.BasicBlock, cut []Edge) map[*ssa.BasicBlock]bool {
	isCut := func(bb *ssa.BasicBlock, i int) bool {
		for _, e := range cut {
			if e.From == bb && e.Succ == i {
				return true
			}
		}
		return false
	}
	seen := map[*ssa.BasicBlock]bool{}
	var work []*ssa.BasicBlock
	for i, s := range b.Succs {
		if !isCut(b, i) && !seen[s] {
			seen[s] = true
			work = append(work, s)
		}
	}
	for len(work) > 0 {
		x := work[len(work)-1]
		work = work[:len(work)-1]
		for i, s := range x.Succs {
			if isCut(x, i) || seen[s] {
				continue
			}
			seen[s] = true
			work = append(work, s)
		}
	}
	return seen
}

// instrIndex returns the index of in within its block.
func instrIndex(in ssa.Instruction) int {
	for i, x := range in.Block().Instrs {
		if x == in {
			return i
		}
	}
	return -1
}

// guardedBy reports whether `site` becomes unreachable from the function entry
// once every edge on which one of the alternative patterns holds is removed.
// It returns the number of guard edges found (0 = guard missing).
func guardedBy(site ssa.Instruction, alts ...FP) (ok bool, nEdges int) {
	return guardedByDepth(site, 0, alts...)
}

func guardedByDepth(site ssa.Instruction, depth int, alts ...FP) (ok bool, nEdges int) {
	fn := site.Parent()
	if okL, n := guardedLocal(site, depth, alts...); okL {
		return true, n
	}
	cut := factEdgesAlts(fn, depth, alts...)
	if len(cut) == 0 {
		// the site may live in a virtually inlined helper: the guard can then sit at every call site
		return guardedAtCallSites(site, depth, alts...)
	}
	if ok2, n2 := guardedAtCallSites(site, depth, alts...); ok2 {
		return true, len(cut) + n2
	}
	return false, len(cut)
}

// guardedAtCallSites: site lies in a new helper; it is guarded if every
// production call site of the helper is guarded in its caller.
func guardedAtCallSites(site ssa.Instruction, depth int, alts ...FP) (bool, int) {
	fn := site.Parent()
	if depth > 2 || !isNewHelper(fn) {
		return false, 0
	}
	sites := callSitesOf(fn)
	if len(sites) == 0 {
		return false, 0
	}
	n := 0
	for _, cs := range sites {
		ok, k := guardedByDepth(cs, depth+1, alts...)
		if !(k > 0 && ok) {
			return false, n
		}
		n += k
	}
	return true, n
}

// returns lists the Return instructions of fn (excluding the recover block).
func returns(fn *ssa.Function) []*ssa.Return {
	var out []*ssa.Return
	for _, b := range fn.Blocks {
		if b == fn.Recover {
			continue
		}
		for _, in := range b.Instrs {
			if r, ok := in.(*ssa.Return); ok {
				out = append(out, r)
			}
		}
	}
	return out
}

// constString folds a string-typed SSA value to its constant value when it is
// built only from constants and concatenation.
func constString(v ssa.Value) (string, bool) {
	switch x := v.(type) {
	case *ssa.Const:
		if x.Value != nil && x.Value.Kind() == constant.String {
			return constant.StringVal(x.Value), true
		}
	case *ssa.BinOp:
		if x.Op == token.ADD {
			a, ok1 := constString(x.X)
			b, ok2 := constString(x.Y)
			if ok1 && ok2 {
				return a + b, true
			}
		}
	case *ssa.ChangeType:
		return constString(x.X)
	case *ssa.Convert:
		return constString(x.X)
	}
	return "", false
}

// constInt folds an integer constant (with |, + of constants).
func constInt(v ssa.Value) (int64, bool) {
	switch x := v.(type) {
	case *ssa.Const:
		if x.Value != nil && x.Value.Kind() == constant.Int {
			return constant.Int64Val(x.Value)
		}
	case *ssa.Convert:
		return constInt(x.X)
	case *ssa.ChangeType:
		return constInt(x.X)
	case *ssa.BinOp:
		a, ok1 := constInt(x.X)
		b, ok2 := constInt(x.Y)
		if ok1 && ok2 {
			switch x.Op {
			case token.OR:
				return a | b, true
			case token.ADD:
				return a + b, true
			}
		}
	}
	return 0, false
}
