package main

// Obligations, verdicts, evidence and known findings.

import (
	"encoding/json"
	"fmt"
	"os"
	"path/filepath"
	"sort"
	"strings"

	"golang.org/x/tools/go/ssa"
)

type Status string

const (
	StOK         Status = "ok"
	StViolation  Status = "violation"
	StUndecided  Status = "undecided"
	StUnresolved Status = "unresolved-anchor"
	StFloor      Status = "below-floor"
	StInfo       Status = "info" // report-only, never fails
)

// Obl is one decided obligation (property, rule, construct).
type Obl struct {
	Prop      string   `json:"property"`
	Rule      string   `json:"rule"`
	Construct string   `json:"construct"`
	Config    string   `json:"config,omitempty"`
	Pos       string   `json:"pos,omitempty"`
	Status    Status   `json:"status"`
	Detail    string   `json:"detail,omitempty"`
	Path      []string `json:"path,omitempty"`
}

func (o Obl) Key() string { return o.Prop + "|" + o.Rule + "|" + o.Construct }

// Ctx is the per-property, per-configuration evaluation context.
type Ctx struct {
	P     *Prog
	Prop  string
	Tier  string
	Obls  []Obl
	funcs map[string]bool // functions looked at (evidence)
	notes []string

	floorAcc   map[string]*floorEntry
	floorOrder []string
}

type floorEntry struct {
	rule, what string
	got, want  int
}

// floorBegin switches floors to accumulating mode; floorEnd emits them on the sums.
func (c *Ctx) floorBegin() { c.floorAcc, c.floorOrder = map[string]*floorEntry{}, nil }

func (c *Ctx) floorEnd() {
	acc, order := c.floorAcc, c.floorOrder
	c.floorAcc, c.floorOrder = nil, nil
	for _, k := range order {
		e := acc[k]
		c.floor(e.rule, e.got, e.want, e.what)
	}
}

func (c *Ctx) add(rule, construct, pos string, st Status, detail string, path ...string) {
	c.Obls = append(c.Obls, Obl{Prop: c.Prop, Rule: rule, Construct: construct, Config: c.P.Cfg.String(),
		Pos: pos, Status: st, Detail: detail, Path: path})
}

func (c *Ctx) ok(rule, construct, pos, detail string) { c.add(rule, construct, pos, StOK, detail) }
func (c *Ctx) fail(rule, construct, pos, detail string, path ...string) {
	c.add(rule, construct, pos, StViolation, detail, path...)
}
func (c *Ctx) undecided(rule, construct, pos, detail string) {
	c.add(rule, construct, pos, StUndecided, detail)
}
func (c *Ctx) info(rule, construct, pos, detail string) { c.add(rule, construct, pos, StInfo, detail) }

// check records ok or violation depending on cond.
func (c *Ctx) check(cond bool, rule, construct, pos, okDetail, failDetail string, path ...string) bool {
	if cond {
		c.ok(rule, construct, pos, okDetail)
	} else {
		c.fail(rule, construct, pos, failDetail, path...)
	}
	return cond
}

// fn resolves an anchor function; a missing anchor is itself a failure.
func (c *Ctx) fn(rule, name string) *ssa.Function {
	f := c.P.Func(name)
	if f == nil || f.Blocks == nil {
		c.add(rule, "anchor "+name, "", StUnresolved, "function "+name+" not found in "+c.P.Cfg.String())
		return nil
	}
	c.touch(f)
	if g := delegateOf(f); g != f {
		c.touch(g)
		return g
	}
	return f
}

// fnOpt resolves an optional anchor (exists only in some configurations).
func (c *Ctx) fnOpt(name string) *ssa.Function {
	f := c.P.Func(name)
	if f == nil || f.Blocks == nil {
		return nil
	}
	c.touch(f)
	if g := delegateOf(f); g != f {
		c.touch(g)
		return g
	}
	return f
}

func (c *Ctx) touch(f *ssa.Function) {
	if c.funcs == nil {
		c.funcs = map[string]bool{}
	}
	c.funcs[fnName(f)] = true
}

// floor records a vacuity failure when a rule matched fewer instances than the
// number confirmed by hand on the reference tree.
func (c *Ctx) floor(rule string, got, want int, what string) {
	if c.floorAcc != nil {
		// accumulating mode: a rule body is run once per part of a split function and
		// the floors apply to the sum (see floorBegin / floorEnd)
		k := rule + "\x00" + what
		e := c.floorAcc[k]
		if e == nil {
			e = &floorEntry{rule: rule, what: what, want: want}
			c.floorAcc[k] = e
			c.floorOrder = append(c.floorOrder, k)
		}
		e.got += got
		return
	}
	if got < want {
		c.add(rule, "floor:"+what, "", StFloor, fmt.Sprintf("%s: matched %d instance(s), expected at least %d", what, got, want))
	}
}

func (c *Ctx) note(s string) { c.notes = append(c.notes, s) }

func (c *Ctx) pos(in ssa.Instruction) string { return c.P.InstrPos(in) }

// ---------------------------------------------------------------------------
// known findings

type KnownFinding struct {
	ID        string `json:"id"`
	Status    string `json:"status"` // "known" or "fixed"
	Property  string `json:"property"`
	Rule      string `json:"rule"`
	Construct string `json:"construct"`
	What      string `json:"what"`
	Commit    string `json:"commit,omitempty"`
}

type KnownFile struct {
	Comment  string         `json:"comment"`
	Findings []KnownFinding `json:"findings"`
}

func loadKnown(path string) (map[string]KnownFinding, error) {
	out := map[string]KnownFinding{}
	data, err := os.ReadFile(path)
	if os.IsNotExist(err) {
		return out, nil
	} else if err != nil {
		return nil, err
	}
	var kf KnownFile
	if err := json.Unmarshal(data, &kf); err != nil {
		return nil, fmt.Errorf("known findings: %w", err)
	}
	for _, f := range kf.Findings {
		if f.Status != "known" {
			continue // "fixed" entries suppress nothing
		}
		out[f.Property+"|"+f.Rule+"|"+f.Construct] = f
	}
	return out, nil
}

// ---------------------------------------------------------------------------
// evidence

type Evidence struct {
	PropertyID  string         `json:"property_id"`
	Tier        string         `json:"tier"`
	Seed        int            `json:"seed"`
	Level       string         `json:"level"`
	Coverage    map[string]any `json:"coverage"`
	Assumptions []string       `json:"assumptions"`
	WallS       float64        `json:"wall_s"`
	Violations  int            `json:"violations"`
}

// mergeObls folds obligations of several configurations: an obligation key is
// violated if it is violated in any configuration.
func summarize(obls []Obl) (byKey map[string][]Obl, keys []string) {
	byKey = map[string][]Obl{}
	for _, o := range obls {
		byKey[o.Key()] = append(byKey[o.Key()], o)
	}
	for k := range byKey {
		keys = append(keys, k)
	}
	sort.Strings(keys)
	return
}

func worst(os []Obl) Obl {
	rank := func(s Status) int {
		switch s {
		case StViolation:
			return 5
		case StUnresolved:
			return 4
		case StUndecided:
			return 3
		case StFloor:
			return 2
		case StOK:
			return 1
		}
		return 0
	}
	w := os[0]
	for _, o := range os[1:] {
		if rank(o.Status) > rank(w.Status) {
			w = o
		}
	}
	return w
}

func writeJSON(path string, v any) error {
	if err := os.MkdirAll(filepath.Dir(path), 0o755); err != nil {
		return err
	}
	data, err := json.MarshalIndent(v, "", " ")
	if err != nil {
		return err
	}
	return os.WriteFile(path, append(data, '\n'), 0o644)
}

func sanitize(s string) string {
	var b strings.Builder
	for _, r := range s {
		switch {
		case r >= 'a' && r <= 'z', r >= 'A' && r <= 'Z', r >= '0' && r <= '9', r == '-', r == '_', r == '.':
			b.WriteRune(r)
		default:
			b.WriteByte('_')
		}
	}
	out := b.String()
	if len(out) > 120 {
		out = out[:120]
	}
	return out
}
