package main

// C12 — concurrent daemon operations are race-free, deadlock-free and keep C01/C02.

import (
	"fmt"
	"go/token"
	"go/types"
	"os"
	"sort"
	"strings"

	"golang.org/x/tools/go/ssa"
)

func init() {
	register(&PropSpec{
		ID:  "C12",
		Run: runC12,
		Explanation: "Locks as typestate (E4) over the whole production program: (R1) pairing — every acquisition (mutex, RW mutex, weighted semaphore, advisory file lock) is released on every path to every exit, or ownership is handed to a value whose release is itself obligated (lockExec/lockSync wrappers, snapshotPosition -> snapshotReadPosition.close via sync.Once); " +
			"(R2) required locksets at call sites (checkpoint only under execSem+chkMu(W); sync/verify only under execSem; chkMu.RLock taken while execSem is held); (R3) the lock-order graph over classes (edge A->B when B is blockingly acquired while A may be held, through calls) is acyclic; " +
			"(R4) guarded-by: for a frozen table of shared fields every write holds all of its write guards and every read holds at least one read guard, so any write/access pair shares a lock; (R5) DB.Close completeness: once the semaphore is acquired (with a non-cancellable context) every path releases the read lock, closes the SQL handle and the file handle and stops the replica; " +
			"(R6) RegisterDB: the duplicate scan and the append happen in one critical section on Store.mu and Open/Close are called without it. RegisterDB opens/closes only the instance it was given.",
		NotDecided:  "races on fields outside the table; deadlocks involving channels/contexts/WaitGroups rather than locks (blocking-under-lock is reported, not armed); that the replica still satisfies C01/C02 afterwards",
		Assumptions: []string{"Go memory model: accesses ordered by a common lock are race-free"},
	})
}

// guardedFields: field -> (write guards (all required), read guards (any one suffices)).
type guardSpec struct {
	write []string
	read  []string
	note  string
}

var guardedFields = map[string]guardSpec{
	"Replica.pos":                   {[]string{"Replica.mu"}, []string{"Replica.mu", "Replica.mu(R)"}, ""},
	"DB.notify":                     {[]string{"DB.mu"}, []string{"DB.mu", "DB.mu(R)"}, ""},
	"DB.opened":                     {[]string{"DB.mu"}, []string{"DB.mu", "DB.mu(R)"}, ""},
	"DB.syncState":                  {[]string{"DB.execSem", "DB.mu"}, []string{"DB.execSem", "DB.mu", "DB.mu(R)"}, "written under both, read under either"},
	"DB.db":                         {[]string{"DB.execSem", "DB.mu"}, []string{"DB.execSem", "DB.mu", "DB.mu(R)"}, ""},
	"DB.f":                          {[]string{"DB.execSem", "DB.mu"}, []string{"DB.execSem", "DB.mu", "DB.mu(R)"}, ""},
	"DB.rtx":                        {[]string{"DB.execSem"}, []string{"DB.execSem"}, ""},
	"DB.pageSize":                   {[]string{"DB.execSem", "DB.mu"}, []string{"DB.execSem", "DB.mu", "DB.mu(R)"}, ""},
	"DB.lastSuccessfulSyncAt":       {[]string{"DB.lastSuccessfulSyncMu"}, []string{"DB.lastSuccessfulSyncMu", "DB.lastSuccessfulSyncMu(R)"}, ""},
	"Store.dbs":                     {[]string{"Store.mu"}, []string{"Store.mu"}, ""},
	"Store.heartbeatMonitorRunning": {[]string{"Store.mu"}, []string{"Store.mu"}, ""},
	"Replica.f":                     {[]string{"Replica.muf"}, []string{"Replica.muf"}, ""},
}

// named exceptions for guarded-by: "function|field|r/w" -> reason
var guardExceptions = map[string]string{
	"(*ls.DB).SQLDB|DB.db|read":       "exported accessor handing out the handle; synchronisation with Close is the caller's responsibility (documented for tests/tools)",
	"(*ls.Store).Open|Store.dbs|read": "Store.Open runs before any goroutine of the store exists and before the store is shared",
}

func runC12(c *Ctx) {
	la := newLockAnalysis(c.P)
	la.interproc()

	// R1 pairing
	{
		const rule = "R1-lock-pairing"
		nAcq := 0
		for _, fn := range c.P.ProdFuncs() {
			if deadInProduction(c.P, fn) {
				continue
			}
			leaks, direct, allowed := pairingLeaks(c, la, fn)
			if direct == 0 {
				continue
			}
			nAcq += direct
			c.touch(fn)
			name := fnName(fn)
			sort.Strings(leaks)
			if len(leaks) == 0 {
				detail := fmt.Sprintf("%d acquisition(s); every exit releases them (deferred: %s)", direct, la.deferred[fn].String())
				if allowed != nil {
					detail += "; returns holding " + fmt.Sprint(keysOf(allowed)) + " on success by design (hand-off)"
				}
				c.ok(rule, name+": every acquired lock is released on every path to every exit", c.P.Pos(fn.Pos()), detail)
			} else {
				c.fail(rule, name+": every acquired lock is released on every path to every exit", c.P.Pos(fn.Pos()), strings.Join(uniq(leaks), "; "))
			}
			// restore interprocedural state for fn
			la.analyse(fn, la.entry[fn], false)
		}
		c.floor(rule, nAcq, 50, "lock acquisitions in production code")

		// releases of locks held by the caller: only the registered releasers
		for _, fn := range c.P.ProdFuncs() {
			if deadInProduction(c.P, fn) {
				continue
			}
			s := la.summary(fn)
			if len(s.releases) == 0 {
				continue
			}
			name := fnName(fn)
			// a function that unlocks what its callers always hold at entry is fine only if registered
			if reason, ok := lockReleasers[name]; ok {
				c.ok(rule, name+": releases a lock it received ("+s.releases.String()+") [registered hand-off]", c.P.Pos(fn.Pos()), reason)
				continue
			}
			// temporary release and re-acquire of an entry-held lock (unlock ... lock) keeps the set balanced: check exits
			entry := la.entry[fn]
			bal := true
			exMust, _ := la.analyse(fn, entry, false)
			for _, m := range exMust {
				for k := range entry {
					if !m[k] && !la.deferred[fn][k] {
						bal = false
					}
				}
			}
			heldAll := true
			for k := range s.releases {
				if !entry[k] {
					heldAll = false
				}
			}
			switch {
			case heldAll && deferredOnly(fn):
				c.ok(rule, name+": deferred closure releases "+s.releases.String()+" held by its enclosing function", c.P.Pos(fn.Pos()), "entry lock set "+entry.String())
			case heldAll && bal:
				c.ok(rule, name+": temporarily releases caller-held "+s.releases.String()+" and re-acquires before returning", c.P.Pos(fn.Pos()), "balanced with respect to its entry lock set "+entry.String())
			case callersAreReleasers(la, fn):
				c.ok(rule, name+": releases "+s.releases.String()+" on behalf of a registered hand-off", c.P.Pos(fn.Pos()), "only called from registered releasers")
			default:
				c.fail(rule, name+": releases only locks it acquired", c.P.Pos(fn.Pos()), "releases "+s.releases.String()+" which it did not acquire and which are not must-held at its entry "+entry.String())
			}
		}
		// hand-off chain of the checkpoint read lock
		c12Handoff(c, la)
	}

	// R2 required locksets
	requiredLocksets(c, la, "R2-required-locksets")

	// R3 lock order
	{
		const rule = "R3-lock-order-acyclic"
		nEdges := 0
		var edges []string
		for a, m := range la.order {
			for b := range m {
				if a == b {
					continue
				}
				nEdges++
				edges = append(edges, a+"→"+b)
			}
		}
		sort.Strings(edges)
		c.note("lock-order edges: " + strings.Join(edges, ", "))
		cyc := la.cycles()
		realCyc := 0
		for _, cy := range cyc {
			if len(cy) == 1 {
				// self edge: re-acquisition of a held lock class
				w := la.order[cy[0]][cy[0]]
				if selfEdgeBenign(cy[0]) {
					continue
				}
				realCyc++
				c.fail(rule, "lock class "+cy[0]+" is not re-acquired while held", "", "self-edge: "+w)
				continue
			}
			realCyc++
			var ws []string
			for i := range cy {
				a, b := cy[i], cy[(i+1)%len(cy)]
				ws = append(ws, a+"→"+b+": "+la.order[a][b])
			}
			c.fail(rule, "lock-order cycle "+strings.Join(cy, "→"), "", strings.Join(ws, " | "))
		}
		if realCyc == 0 {
			c.ok(rule, fmt.Sprintf("lock-order graph over %d classes / %d edges is acyclic", len(la.order), nEdges), "", strings.Join(edges, ", "))
		}
		c.floor(rule, nEdges, 3, "lock-order edges")
	}

	c12Guarded(c, la)
	c12Close(c, la)
	c12Register(c, la)
}

func keysOf(m map[string]string) []string {
	var out []string
	for k := range m {
		out = append(out, k)
	}
	sort.Strings(out)
	return out
}

func callersAreReleasers(la *lockAnalysis, fn *ssa.Function) bool {
	n := 0
	for _, g := range la.p.ProdFuncs() {
		for _, call := range calls(g) {
			for _, t := range la.calleeFns(call) {
				if t == fn {
					n++
					if _, ok := lockReleasers[fnName(g)]; !ok {
						return false
					}
				}
			}
			if d, ok := call.(*ssa.Defer); ok {
				for _, t := range la.deferTargets(d) {
					if t == fn {
						n++
						if _, ok := lockReleasers[fnName(g)]; !ok {
							return false
						}
					}
				}
			}
		}
	}
	return n > 0
}

// self edges that are not re-acquisitions of the same lock instance
func selfEdgeBenign(class string) bool {
	switch class {
	case "DB.mu", "DB.execSem":
		return false
	case "DB.chkMu":
		// (*DB).sync takes chkMu.RLock only when !checkpointing, and every caller that may hold
		// chkMu passes checkpointing=true: both directions are obligations of rule R2.
		return true
	}
	return true
}

// c12Handoff: snapshotPosition -> SnapshotReader -> snapshotReader -> goroutine / closer.
func c12Handoff(c *Ctx, la *lockAnalysis) {
	const rule = "R1-lock-pairing"
	closeName := "(*ls.snapshotReadPosition).close"
	if sr := c.fn(rule, "(*ls.DB).SnapshotReader"); sr != nil {
		sp := callsTo(sr, nameIs("(*ls.DB).snapshotPosition"))
		rd := callsTo(sr, nameIs("(*ls.DB).snapshotReader"))
		c.floor(rule, len(sp), 1, "snapshotPosition call in SnapshotReader")
		c.floor(rule, len(rd), 1, "snapshotReader call in SnapshotReader")
		avoid := map[*ssa.BasicBlock]bool{}
		for _, call := range callsTo(sr, nameIs(closeName)) {
			avoid[call.Block()] = true
		}
		var cut []Edge
		for _, r := range rd {
			cut = append(cut, nilEdges(sr, r)...)
		}
		bad := false
		for _, p := range sp {
			for _, e := range nilEdges(sr, p) {
				reach := reachableAvoiding(sr, e.From.Succs[e.Succ], cut, avoid)
				for _, ret := range returns(sr) {
					if reach[ret.Block()] {
						bad = true
					}
				}
			}
		}
		c.check(!bad, rule, fnName(sr)+": after snapshotPosition succeeded every path either closes the position or hands it to a successfully created reader", c.P.Pos(sr.Pos()), "no return reachable otherwise", "the checkpoint read lock can leak: a path returns without pos.close() and without a reader owning the position")
	}
	if rd := c.fn(rule, "(*ls.DB).snapshotReader"); rd != nil {
		// the goroutine defers pos.close() first; every success return follows the go statement and returns a closer bound to pos
		var goInstr *ssa.Go
		for _, b := range rd.Blocks {
			for _, in := range b.Instrs {
				if g, ok := in.(*ssa.Go); ok {
					if mc, ok := g.Call.Value.(*ssa.MakeClosure); ok {
						cl := mc.Fn.(*ssa.Function)
						okDefer := false
						for _, in2 := range cl.Blocks[0].Instrs {
							if d, ok := in2.(*ssa.Defer); ok && calleeName(d) == closeName {
								okDefer = true
							}
							if _, isCall := in2.(*ssa.Call); isCall && !okDefer {
								if calleeName(in2.(*ssa.Call)) != "" && !strings.HasPrefix(calleeName(in2.(*ssa.Call)), "builtin") {
									break
								}
							}
						}
						c.check(okDefer, rule, fnName(cl)+": the streaming goroutine defers pos.close() before doing any work", c.pos(g), "defer in entry block", "the goroutine can exit without releasing the checkpoint read lock")
						goInstr = g
					}
				}
			}
		}
		for _, ret := range successReturns(rd) {
			c.check(goInstr != nil && dominates(goInstr, ret), rule, fnName(rd)+": success is returned only after the owning goroutine was started", c.pos(ret), "go dominates return", "a reader is returned without an owner for the position's lock")
			f := compositeFields(retOperand(ret, 0))
			if f == nil {
				for _, o := range origins(retOperand(ret, 0)) {
					if ff := compositeFields(o); ff != nil {
						f = ff
					}
				}
			}
			c.check(f != nil && vParam("pos")(f["pos"]), rule, fnName(rd)+": returned closer is bound to the position", c.pos(ret), "snapshotReadCloser{pos: pos}", "closing the reader would not release the lock")
		}
	}
	if cl := c.fn(rule, "(*ls.snapshotReadCloser).Close"); cl != nil {
		ok := false
		for _, b := range cl.Blocks {
			for _, in := range b.Instrs {
				if d, isD := in.(*ssa.Defer); isD && calleeName(d) == closeName {
					ok = true
				}
			}
		}
		c.check(ok, rule, fnName(cl)+": Close defers pos.close()", c.P.Pos(cl.Pos()), "deferred", "closing an unread snapshot reader does not release the checkpoint read lock")
	}
	if cf := c.fn(rule, closeName); cf != nil {
		ok := false
		for _, call := range callsTo(cf, nameIs("(*sync.Once).Do")) {
			if mc, isMC := call.Common().Args[1].(*ssa.MakeClosure); isMC {
				for _, u := range calls(mc.Fn.(*ssa.Function)) {
					if op, isOp := classifyLockCall(u); isOp && op.Class == "DB.chkMu" && op.Kind == "runlock" {
						ok = true
					}
				}
			}
		}
		c.check(ok, rule, fnName(cf)+": releases chkMu.RUnlock exactly once (sync.Once)", c.P.Pos(cf.Pos()), "once.Do(RUnlock)", "double close would unlock twice / close would not unlock")
	}
}

// c12Guarded: guarded-by table.
func c12Guarded(c *Ctx, la *lockAnalysis) {
	guardedBy2(c, la, "R4-guarded-by", guardedFields, guardExceptions, 40)
	c12IndexValidity(c, guardedFields)
	c01PosCacheAtomic(c, "R8-position-cache-atomic")
}

func guardedBy2(c *Ctx, la *lockAnalysis, rule string, guardedFields map[string]guardSpec, guardExceptions map[string]string, floor int) {
	n := 0
	for _, fn := range c.P.ProdFuncs() {
		if deadInProduction(c.P, fn) {
			continue
		}
		root := fn
		for root.Parent() != nil {
			root = root.Parent()
		}
		// constructors build unshared objects
		if strings.HasPrefix(root.Name(), "New") {
			continue
		}
		for _, b := range fn.Blocks {
			for _, in := range b.Instrs {
				var fa *ssa.FieldAddr
				write := false
				switch x := in.(type) {
				case *ssa.Store:
					fa, _ = x.Addr.(*ssa.FieldAddr)
					write = true
					if fa == nil {
						// store into a sub-field: &db.syncState.f
						if inner, ok := x.Addr.(*ssa.FieldAddr); ok {
							fa = inner
						}
					}
				case *ssa.UnOp:
					if x.Op == token.MUL {
						fa, _ = x.X.(*ssa.FieldAddr)
					}
				}
				if fa == nil {
					continue
				}
				// outermost guarded field on the address chain
				field := ""
				for cur := fa; cur != nil; {
					if _, ok := guardedFields[fieldAddrName(cur)]; ok {
						field = fieldAddrName(cur)
					}
					nxt, _ := cur.X.(*ssa.FieldAddr)
					cur = nxt
				}
				if field == "" {
					continue
				}
				spec := guardedFields[field]
				held := la.heldBefore(in)
				n++
				ok := false
				need := ""
				if write {
					ok = true
					for _, g := range spec.write {
						if !held[g] {
							ok = false
						}
					}
					need = "all of " + fmt.Sprint(spec.write)
				} else {
					for _, g := range spec.read {
						if held[g] {
							ok = true
						}
					}
					need = "one of " + fmt.Sprint(spec.read)
				}
				kind := "read"
				if write {
					kind = "write"
				}
				key := fnName(fn) + "|" + field + "|" + kind
				construct := fmt.Sprintf("%s: %s of %s holds %s", fnName(fn), kind, field, need)
				if ok {
					c.ok(rule, construct, c.pos(in), "held: "+held.String())
				} else if reason, exc := guardExceptions[key]; exc {
					c.ok(rule, construct+" [named exception]", c.pos(in), reason)
				} else {
					// a finding is attributed to the unlocked entry it is reached from (a goroutine
					// body, an exported entry point), so that moving the access between that entry
					// and the functions only it calls unlocked does not rename the finding
					owner := unlockedOrigin(la, fn, func(h lockSet) bool {
						if write {
							for _, g := range spec.write {
								if !h[g] {
									return false
								}
							}
							return true
						}
						for _, g := range spec.read {
							if h[g] {
								return true
							}
						}
						return false
					})
					construct = fmt.Sprintf("%s: %s of %s holds %s", owner, kind, field, need)
					detail := "held here: " + held.String()
					if owner != fnName(fn) {
						detail = "in " + fnName(fn) + ", reached without the lock only from " + owner + "; " + detail
					}
					c.fail(rule, construct, c.pos(in), detail)
				}
			}
		}
	}
	c.floor(rule, n, floor, "accesses to guarded fields")
}

// unlockedOrigin walks from fn up its production call sites that do not hold the
// required locks and returns the single entry (goroutine body, function without
// production callers) the access is reached from; fn itself when there is none or
// more than one.
func unlockedOrigin(la *lockAnalysis, fn *ssa.Function, sat func(lockSet) bool) string {
	origins := map[*ssa.Function]bool{}
	seen := map[*ssa.Function]bool{}
	var walk func(f *ssa.Function)
	walk = func(f *ssa.Function) {
		if seen[f] {
			return
		}
		seen[f] = true
		sites := callSitesOf(f)
		if len(sites) == 0 {
			origins[f] = true
			return
		}
		for _, s := range sites {
			if _, isGo := s.(*ssa.Go); isGo {
				origins[f] = true
				continue
			}
			if sat(la.heldBefore(s)) {
				continue
			}
			walk(s.Parent())
		}
	}
	walk(fn)
	if os.Getenv("LSV_DEBUG_ORIGIN") != "" {
		for o := range origins {
			fmt.Fprintln(os.Stderr, "origin of", fnName(fn), "=", fnName(o))
		}
	}
	if len(origins) == 1 {
		for o := range origins {
			return fnName(o)
		}
	}
	return fnName(fn)
}

// c12IndexValidity: an index into a guarded slice is only meaningful while the lock under
// which it was computed is still held.  For every positional mutation of a guarded slice
// field (slices.Delete / slices.Insert / slices.Replace / element store) no release of
// the field's write lock lies on a path between the computation of the index and the
// mutation (re-locking in between does not help: the slice may have shifted).
func c12IndexValidity(c *Ctx, guardedFields map[string]guardSpec) {
	const rule = "R7-index-valid-while-locked"
	n := 0
	isGuardedSlice := func(v ssa.Value) (string, bool) {
		for _, o := range origins(v) {
			u, ok := o.(*ssa.UnOp)
			if !ok || u.Op != token.MUL {
				continue
			}
			if fa, ok := u.X.(*ssa.FieldAddr); ok {
				if _, g := guardedFields[fieldAddrName(fa)]; g {
					if _, isSlice := fa.Type().Underlying().(*types.Pointer).Elem().Underlying().(*types.Slice); isSlice {
						return fieldAddrName(fa), true
					}
				}
			}
		}
		return "", false
	}
	idxOf := func(in ssa.Instruction) (field string, idx ssa.Value, what string) {
		switch x := in.(type) {
		case *ssa.Call:
			nm := calleeName(x)
			if strings.HasPrefix(nm, "slices.Delete") || strings.HasPrefix(nm, "slices.Insert") || strings.HasPrefix(nm, "slices.Replace") {
				if len(x.Call.Args) >= 2 {
					if f, ok := isGuardedSlice(x.Call.Args[0]); ok {
						return f, x.Call.Args[1], nm
					}
				}
			}
		case *ssa.Store:
			if ia, ok := x.Addr.(*ssa.IndexAddr); ok {
				if f, ok := isGuardedSlice(ia.X); ok {
					return f, ia.Index, "element store"
				}
			}
		}
		return "", nil, ""
	}
	pathFrom := func(a, b ssa.Instruction, avoid *ssa.BasicBlock) bool {
		if a.Block() == b.Block() {
			ia, ib := -1, -1
			for i, in := range a.Block().Instrs {
				if in == a {
					ia = i
				}
				if in == b {
					ib = i
				}
			}
			if ia < ib {
				return true
			}
		}
		av := map[*ssa.BasicBlock]bool{}
		if avoid != nil && avoid != a.Block() && avoid != b.Block() {
			av[avoid] = true
		}
		seen := map[*ssa.BasicBlock]bool{}
		var walk func(bb *ssa.BasicBlock) bool
		walk = func(bb *ssa.BasicBlock) bool {
			if bb == b.Block() {
				return true
			}
			if seen[bb] || av[bb] {
				return false
			}
			seen[bb] = true
			for _, s := range bb.Succs {
				if walk(s) {
					return true
				}
			}
			return false
		}
		for _, s := range a.Block().Succs {
			if walk(s) {
				return true
			}
		}
		return false
	}
	for _, fn := range c.P.ProdFuncs() {
		if deadInProduction(c.P, fn) {
			continue
		}
		for _, b := range fn.Blocks {
			for _, in := range b.Instrs {
				field, idx, what := idxOf(in)
				if idx == nil {
					continue
				}
				var defs []ssa.Instruction
				for _, o := range origins(idx) {
					d, ok := o.(ssa.Instruction)
					if !ok {
						continue
					}
					if d.Parent() == fn {
						defs = append(defs, d)
					} else if at := liftTo(fn, d); at != nil {
						// computed by an extracted scan helper: its call is the computation
						defs = append(defs, at)
					}
				}
				// ... a helper with several call sites: the call that produced this index
				var viaCall func(v ssa.Value, d int)
				viaCall = func(v ssa.Value, d int) {
					if v == nil || d > 3 {
						return
					}
					switch x := v.(type) {
					case *ssa.Call:
						if x.Parent() == fn && isNewHelper(x.Call.StaticCallee()) {
							defs = append(defs, x)
						}
					case *ssa.Phi:
						for _, e := range x.Edges {
							viaCall(e, d+1)
						}
					case *ssa.Extract:
						viaCall(x.Tuple, d+1)
					}
				}
				viaCall(idx, 0)
				if len(defs) == 0 {
					continue // constant index or a parameter: nothing was computed under the lock here
				}
				n++
				spec := guardedFields[field]
				bad := ""
				for _, call := range calls(fn) {
					op, ok := classifyLockCall(call)
					if !ok || (op.Kind != "unlock" && op.Kind != "release") {
						continue
					}
					isW := false
					for _, g := range spec.write {
						if g == op.Class {
							isW = true
						}
					}
					if !isW {
						continue
					}
					if _, deferred := call.(*ssa.Defer); deferred {
						continue
					}
					for _, d := range defs {
						if pathFrom(d, call, nil) && pathFrom(call, in, d.Block()) {
							bad = c.pos(call)
						}
					}
				}
				c.check(bad == "", rule, fmt.Sprintf("%s: the index used by %s on %s was computed in the same critical section", fnName(fn), what, field), c.pos(in),
					"no release of "+fmt.Sprint(spec.write)+" between the computation of the index and its use",
					"the lock is released at "+bad+" between computing the index and using it: a concurrent register/unregister shifts the slice and the stale index removes or overwrites an unrelated element")
			}
		}
	}
	c.floor(rule, n, 1, "positional mutations of guarded slices")
}

func c12Close(c *Ctx, la *lockAnalysis) {
	const rule = "R5-close-completeness"
	fn := c.fn(rule, "(*ls.DB).Close")
	if fn == nil {
		return
	}
	var acq ssa.CallInstruction
	for _, call := range calls(fn) {
		if op, ok := classifyLockCall(call); ok && op.Class == "DB.execSem" && op.Kind == "acquire" {
			acq = call
		}
	}
	if acq == nil {
		c.fail(rule, fnName(fn)+": acquires the executor semaphore", c.P.Pos(fn.Pos()), "no Acquire of DB.execSem")
		return
	}
	c.check(vCall("context.WithoutCancel", nil)(acq.Common().Args[1]), rule, fnName(fn)+": the semaphore is acquired with a non-cancellable context", c.pos(acq), "context.WithoutCancel(ctx)", "a cancelled caller context would skip the teardown and leave the read lock and handles open")
	steps := []struct {
		callee string
		nilOf  string // field whose nil-ness legitimately skips the step
	}{
		{"(*ls.DB).releaseReadLock", "DB.rtx"},
		{"(*database/sql.DB).Close", "DB.db"},
		{"(*os.File).Close", "DB.f"},
		{"(*ls.Replica).Stop", "DB.Replica"},
	}
	for _, st := range steps {
		cs := callsTo(fn, nameIs(st.callee))
		c.floor(rule, len(cs), 1, st.callee+" in DB.Close")
		avoid := map[*ssa.BasicBlock]bool{}
		for _, call := range cs {
			avoid[call.Block()] = true
		}
		// skipping is allowed only on the edge where the resource is nil
		var cut []Edge
		for _, b := range fn.Blocks {
			ifi, ok := lastInstr(b).(*ssa.If)
			if !ok {
				continue
			}
			for e := 0; e < 2; e++ {
				f := edgeFact(ifi, e)
				if f.Op == token.EQL && isNilConst(f.R) {
					if vFieldLoad(st.nilOf, nil)(f.L) || derivedFromField(f.L, st.nilOf) {
						cut = append(cut, Edge{b, e})
					}
				}
			}
		}
		bad := false
		for _, e := range nilEdges(fn, acq) {
			r := reachableAvoiding(fn, e.From.Succs[e.Succ], cut, avoid)
			for _, ret := range returns(fn) {
				if r[ret.Block()] {
					bad = true
				}
			}
		}
		c.check(!bad, rule, fnName(fn)+": every path after acquiring the semaphore passes "+st.callee+" (unless "+st.nilOf+" is nil)", c.P.Pos(fn.Pos()), "no return reachable otherwise", "Close can return without "+st.callee+": the source database keeps litestream's read lock or an open handle")
	}
	// monitor stopped before teardown
	var cancel, wait ssa.CallInstruction
	for _, call := range calls(fn) {
		switch calleeName(call) {
		case "slot:DB.cancel":
			cancel = call
		case "(*sync.WaitGroup).Wait":
			wait = call
		}
	}
	c.check(cancel != nil && wait != nil && dominates(cancel, wait) && dominates(wait, acq), rule, fnName(fn)+": cancels and waits for the monitor before taking the semaphore", c.P.Pos(fn.Pos()), "cancel → wg.Wait → Acquire", "the monitor goroutine can still be running during teardown")
	// fields cleared under DB.mu
	for _, f := range []string{"DB.db", "DB.f", "DB.rtx", "DB.opened"} {
		ok := false
		for _, st := range storesToField(fn, f) {
			if st.Block().Parent() == fn && (isNilConst(st.Val) || vConstBool(false)(st.Val)) {
				ok = true
			}
		}
		c.check(ok, rule, fnName(fn)+": clears "+f, c.P.Pos(fn.Pos()), "store of zero value", "Close leaves "+f+" set: a later Open would reuse closed state")
	}
}

func derivedFromField(v ssa.Value, field string) bool {
	for _, o := range origins(v) {
		if vFieldLoad(field, nil)(o) {
			return true
		}
	}
	return false
}

func c12Register(c *Ctx, la *lockAnalysis) {
	const rule = "R6-register-atomic"
	fn := c.fn(rule, "(*ls.Store).RegisterDB")
	if fn == nil {
		return
	}
	var appendSt *ssa.Store
	for _, st := range storesToFieldDeep(fn, "Store.dbs") {
		if st.Block().Parent().Parent() == nil {
			appendSt = st
		}
	}
	if appendSt == nil {
		c.fail(rule, fnName(fn)+": appends to Store.dbs", c.P.Pos(fn.Pos()), "no store to Store.dbs")
		return
	}
	// the registration's root (Open/Close discipline) and the function holding the
	// append's critical section (RegisterDB itself, or the helper it was moved into)
	root := fn
	fn = appendSt.Parent()
	c.check(la.heldBefore(appendSt)["Store.mu"], rule, fnName(fn)+": append to Store.dbs under Store.mu", c.pos(appendSt), "held", "append without the lock")
	// nearest Lock of Store.mu dominating the append (start of its critical section)
	var lock ssa.CallInstruction
	for _, call := range calls(fn) {
		if op, ok := classifyLockCall(call); ok && op.Class == "Store.mu" && op.Kind == "lock" && dominates(call, appendSt) {
			if lock == nil || dominates(lock, call) {
				lock = call
			}
		}
	}
	if lock == nil {
		c.fail(rule, fnName(fn)+": critical section of the append", c.pos(appendSt), "no dominating Lock")
		return
	}
	// no unlock between lock and append on any path
	noUnlock := true
	for _, call := range calls(fn) {
		if op, ok := classifyLockCall(call); ok && op.Class == "Store.mu" && op.Kind == "unlock" {
			if _, isCall := call.(*ssa.Call); isCall && dominates(lock, call) && reachable(fn, call.Block(), nil)[appendSt.Block()] && call.Block() != appendSt.Block() {
				noUnlock = false
			}
		}
	}
	c.check(noUnlock, rule, fnName(fn)+": no Unlock between the section's Lock and the append", c.pos(lock), "single critical section", "the lock is dropped between the duplicate scan and the append")
	// the duplicate scan inside this section iterates a slice loaded from Store.dbs after the Lock
	ok := false
	for _, vs := range sitesV(fn, func(in ssa.Instruction) bool {
		call, isCall := in.(*ssa.Call)
		return isCall && calleeName(call) == "builtin:len"
	}) {
		call := vs.In.(*ssa.Call)
		x := call.Call.Args[0]
		at := vs.At()
		if !dominates(lock, at) || !(at.Block() == appendSt.Block() || at.Block().Dominates(appendSt.Block())) {
			continue
		}
		// x must be a load of Store.dbs performed after the Lock
		if u, isU := x.(*ssa.UnOp); isU {
			if fa, isFA := u.X.(*ssa.FieldAddr); isFA && fieldAddrName(fa) == "Store.dbs" && (len(vs.Ctx) > 0 || dominates(lock, u)) {
				ok = true
			}
		}
	}
	c.check(ok, rule, fnName(fn)+": the duplicate scan guarding the append ranges over s.dbs as read inside the same critical section", c.pos(appendSt), "range over a load of Store.dbs dominated by the section's Lock", "the second duplicate check iterates a stale copy of the list (two concurrent registrations of one path could both append)")
	// the scan leads to the append only when no equal path was found
	nEq := 0
	for _, e := range factEdges(fn, cmpFact(vCall("(*ls.DB).Path", nil), token.EQL, vCall("(*ls.DB).Path", nil), "")) {
		if !dominates(lock, lastInstr(e.From)) {
			continue
		}
		nEq++
		r := reachable(fn, e.From.Succs[e.Succ], nil)
		c.check(!r[appendSt.Block()], rule, fnName(fn)+": finding an equal path in the second scan never leads to the append", c.pos(lastInstr(e.From)), "append unreachable from the equal edge", "a duplicate can still be appended")
	}
	// the scan extracted into a helper that returns the index of the equal path (or -1) or
	// a found flag: the edge on which the helper reports "found" plays the same role
	eq := cmpFact(vCall("(*ls.DB).Path", nil), token.EQL, vCall("(*ls.DB).Path", nil), "")
	for _, b := range fn.Blocks {
		ifi, isIf := lastInstr(b).(*ssa.If)
		if !isIf || !dominates(lock, ifi) {
			continue
		}
		for succ := 0; succ < 2; succ++ {
			f := edgeFact(ifi, succ)
			found := false
			if f.Op == token.ILLEGAL {
				if call, ok := f.L.(*ssa.Call); ok && f.Truth {
					if h := call.Call.StaticCallee(); isNewHelper(h) && len(factEdges(h, eq)) > 0 && calleeEstablishes(h, false, true, []FP{eq}, 0) {
						found = true
					}
				}
			} else if call, ok := f.L.(*ssa.Call); ok {
				if h := call.Call.StaticCallee(); isNewHelper(h) && len(factEdges(h, eq)) > 0 {
					if k, isK := constInt(f.R); isK {
						switch {
						case f.Op == token.GEQ && k == 0, f.Op == token.GTR && k == -1, f.Op == token.NEQ && k == -1:
							// every non-negative return of the helper is reached under the equal fact
							found = true
							for _, r := range returns(h) {
								if kv, isC := constInt(retOperand(r, 0)); isC && kv < 0 {
									continue
								}
								if g, n := guardedBy(r, eq); !(n > 0 && g) {
									found = false
								}
							}
						}
					}
				}
			}
			if !found {
				continue
			}
			nEq++
			r := reachable(fn, b.Succs[succ], nil)
			c.check(!r[appendSt.Block()], rule, fnName(fn)+": finding an equal path in the second scan never leads to the append", c.pos(ifi), "append unreachable from the found edge", "a duplicate can still be appended")
		}
	}
	c.floor(rule, nEq, 1, "equal-path branch inside the append's critical section")
	// ... and the scan covers the whole list: the compared elements are indexed out of
	// s.dbs itself, not out of a sub-slice (entries can move down when another database
	// is unregistered, so "only the entries added since the first check" is not a prefix
	// property)
	for _, vs := range sitesV(fn, func(in ssa.Instruction) bool {
		ia, ok := in.(*ssa.IndexAddr)
		if !ok {
			return false
		}
		return strings.Contains(ia.X.Type().String(), "DB") && strings.HasPrefix(ia.X.Type().Underlying().String(), "[]")
	}) {
		ia := vs.In.(*ssa.IndexAddr)
		at := vs.At()
		if !dominates(lock, at) || !(at.Block() == appendSt.Block() || reachable(fn, at.Block(), nil)[appendSt.Block()]) {
			continue
		}
		whole := false
		if u, isU := ia.X.(*ssa.UnOp); isU {
			if fa, isFA := u.X.(*ssa.FieldAddr); isFA && fieldAddrName(fa) == "Store.dbs" {
				whole = true
			}
		}
		c.check(whole, rule, fnName(fn)+": the duplicate scan in the append's critical section covers the whole list", c.pos(ia), "elements are indexed out of s.dbs", "the second duplicate check scans only part of s.dbs: a same-path instance outside that part is missed and a second instance of the database is appended")
	}
	// Open/Close are called without Store.mu
	for _, call := range calls(root) {
		switch calleeName(call) {
		case "(*ls.DB).Open", "(*ls.DB).Close":
			if _, isCall := call.(*ssa.Call); isCall {
				// the registration only ever opens/closes the instance it was given: closing
				// an element of s.dbs would shut down the managed database and leave the
				// duplicate running unmanaged (handles and read lock leaked)
				recv := argOf(call, 0)
				own := false
				for _, o := range origins(recv) {
					if p, isP := o.(*ssa.Parameter); isP && p.Parent() == root && refParamName(p) == "db" {
						own = true
					}
				}
				if len(origins(recv)) != 1 {
					own = false
				}
				c.check(own, rule, fnName(fn)+": "+calleeName(call)+" acts on the instance being registered", c.pos(call), "receiver is the db parameter", "a database other than the one being registered is opened/closed (an element of the managed list)")
				held := la.inMayBefore(call)
				c.check(!held.hasClass("Store.mu"), rule, fnName(fn)+": "+calleeName(call)+" is called without Store.mu", c.pos(call), "not held", "a blocking Open/Close runs under the store lock")
			}
		}
	}
}

// inMayBefore returns the may-held set before an instruction.
func (la *lockAnalysis) inMayBefore(at ssa.Instruction) lockSet {
	fn := at.Parent()
	in := la.inMay[fn]
	if in == nil {
		return lockSet{}
	}
	may := in[at.Block()].clone()
	must := may.clone()
	var pend []pendingAcq
	for _, x := range at.Block().Instrs {
		if x == at {
			break
		}
		la.step(fn, x, must, may, &pend, false)
	}
	return may
}

// pairingLeaks runs the pairing-mode lockset analysis on fn: the locks that
// can still be held at one of its exits (empty = balanced), the number of
// acquisitions it performs directly or through wrappers, and the hand-off
// table entry of fn (locks it returns holding by design).
func pairingLeaks(c *Ctx, la *lockAnalysis, fn *ssa.Function) (leaks []string, direct int, allowed map[string]string) {
	for _, call := range calls(fn) {
		if _, isDefer := call.(*ssa.Defer); isDefer {
			continue
		}
		if op, ok := classifyLockCall(call); ok {
			switch op.Kind {
			case "lock", "rlock", "trylock", "tryrlock", "acquire", "tryacquire":
				direct++
			}
		}
		for _, g := range la.calleeFns(call) {
			if _, isW := lockWrappers[fnName(g)]; isW {
				direct++
			}
		}
	}
	if direct == 0 {
		return nil, 0, nil
	}
	la.pairing = true
	exMust, exMay := la.analyse(fn, lockSet{}, false)
	la.pairing = false
	allowed = lockWrappers[fnName(fn)]
	for r, may := range exMay {
		held := may.clone()
		for k := range held {
			if _, ok := allowed[k]; ok && canSucceed(r) {
				// on success the wrapper must hold it on every path
				if !exMust[r][k] {
					leaks = append(leaks, fmt.Sprintf("%s only maybe held at success return %s", k, c.pos(r)))
				}
				continue
			}
			leaks = append(leaks, fmt.Sprintf("%s still held at return %s", k, c.pos(r)))
		}
	}
	// restore interprocedural state for fn
	la.analyse(fn, la.entry[fn], false)
	return leaks, direct, allowed
}

// releaseBetween reports whether a (non-deferred) release of lock class cls lies on a path
// from instruction d to instruction use in fn that does not pass d's block again.
func releaseBetween(fn *ssa.Function, d, use ssa.Instruction, cls string) bool {
	after := func(a, b ssa.Instruction, avoid *ssa.BasicBlock) bool {
		if a.Block() == b.Block() && instrIndex(a) < instrIndex(b) {
			return true
		}
		seen := map[*ssa.BasicBlock]bool{}
		var walk func(bb *ssa.BasicBlock) bool
		walk = func(bb *ssa.BasicBlock) bool {
			if bb == b.Block() {
				return true
			}
			if seen[bb] || (avoid != nil && bb == avoid && avoid != a.Block() && avoid != b.Block()) {
				return false
			}
			seen[bb] = true
			for _, s := range bb.Succs {
				if walk(s) {
					return true
				}
			}
			return false
		}
		for _, s := range a.Block().Succs {
			if walk(s) {
				return true
			}
		}
		return false
	}
	for _, call := range calls(fn) {
		if _, deferred := call.(*ssa.Defer); deferred {
			continue
		}
		op, ok := classifyLockCall(call)
		if !ok || (op.Kind != "unlock" && op.Kind != "release" && op.Kind != "runlock") || op.Class != cls {
			continue
		}
		if after(d, call, nil) && after(call, use, d.Block()) {
			return true
		}
	}
	return false
}
