package main

// C17 — databases crossing the 1 GiB lock page replicate and restore correctly.

import (
	"fmt"
	"go/token"
	"strings"

	"golang.org/x/tools/go/ssa"
)

func init() {
	register(&PropSpec{
		ID:  "C17",
		Run: runC17,
		Explanation: "Every dense page loop of the production program that encodes or schedules page `pgno` (writeLTXFromDB, the growth loop of writeLTXFromWAL) is cut by pgno != ltx.LockPgno(uint32(db.pageSize)) " +
			"(edge-cut reachability; the comparison is symbolic in the page size, so it holds for every page size); on ltx v0.5.2 itself: Encoder.EncodePage cannot succeed for the lock page, " +
			"Decoder.DecodeDatabaseTo writes a zeroed page at the lock page number and decodes no page there.  Non-dense page sources are listed with the reason they cannot contain the lock page. Page-copy provenance (shared with C01): database pages are read at (pgno-1)*pageSize into the buffer that is encoded, WAL pages at their frame offset.",
		NotDecided:  "byte equality of all other pages (C01); behaviour of SQLite itself around the pending byte",
		Assumptions: []string{"SQLite never writes the lock-byte page, so it never appears in a WAL frame"},
	})
}

func runC17(c *Ctx) {
	c17DerivedFromPageSize(c)
	offsetWidthRule(c, "R2-offsets-64bit")
	applyResizeRule(c, "R3-follower-resized-to-commit")
	pageCopyRules(c, "R1-dense-loops-skip-lock-page", false)
	// other counted uint32 loops feeding EncodePage anywhere in production code
	{
		const rule = "R1-dense-loops-skip-lock-page"
		n := 0
		for _, fn := range c.P.ProdFuncs() {
			encs := callsTo(fn, nameIs("(*ltx.Encoder).EncodePage"))
			if len(encs) == 0 {
				continue
			}
			n++
			dense := false
			for _, cl := range countedLoops(fn) {
				for _, e := range encs {
					if v, ok := compositeFields(e.Common().Args[1])["Pgno"]; ok && vIs(cl.Phi)(v) {
						dense = true
					}
				}
			}
			nm := fnName(fn)
			switch {
			case nm == "(*ls.DB).writeLTXFromDB":
			case nm == "(*ls.DB).writeLTXFromWAL":
				// pages come from the sorted list: WAL page map keys + growth loop (guarded above)
				c.ok(rule, nm+": encode loop iterates the page list (WAL frames cannot be the lock page; growth pages are guarded)", c.P.Pos(fn.Pos()), "non-dense source")
			case dense:
				c.fail(rule, nm+": dense page loop encodes pages without a lock-page skip rule", c.P.Pos(fn.Pos()), "a new dense page loop feeds EncodePage; it must skip ltx.LockPgno")
			default:
				c.ok(rule, nm+": EncodePage fed from a non-dense page set", c.P.Pos(fn.Pos()), "pages come from an explicit set (dirty pages / index), never a dense range")
			}
		}
		c.floor(rule, n, 2, "functions calling EncodePage")
	}
	// R2: ltx library obligations
	{
		const rule = "R2-ltx-rejects-lock-page"
		if fn := c.fn(rule, "(*ltx.Encoder).EncodePage"); fn != nil {
			lock := vResult(nameIs("ltx.LockPgno"), 0)
			for _, r := range successReturns(fn) {
				c.requireGuard(rule, fn, Site{r, "success return"}, cmpFact(vFieldLoad("PageHeader.Pgno", nil), token.NEQ, lock, "hdr.Pgno != LockPgno(pageSize)"))
			}
			for _, lp := range callsTo(fn, nameIs("ltx.LockPgno")) {
				c.check(vFieldPath("Encoder.header", "Header.PageSize")(lp.Common().Args[0]) || vFieldLoad("Header.PageSize", nil)(lp.Common().Args[0]), rule, fnName(fn)+": lock page from the header's page size", c.pos(lp), "enc.header.PageSize", "unexpected page size source")
			}
		}
		if fn := c.fn(rule, "(*ltx.Decoder).DecodeDatabaseTo"); fn != nil {
			lockV := vOr(vResult(nameIs("(*ltx.Header).LockPgno"), 0), vResult(nameIs("ltx.LockPgno"), 0), vResult(nameIs("(ltx.Header).LockPgno"), 0))
			n := 0
			for _, cl := range countedLoops(fn) {
				if cl.Phi.Type().String() != "uint32" {
					continue
				}
				n++
				pg := vIs(cl.Phi)
				for _, dp := range callsTo(fn, nameIs("(*ltx.Decoder).DecodePage")) {
					if !cl.Header.Dominates(dp.Block()) || !reachable(fn, dp.Block(), nil)[cl.Header] {
						continue
					}
					c.requireGuard(rule, fn, Site{dp, "DecodePage inside the page loop"}, cmpFact(pg, token.NEQ, lockV, "pgno != lockPgno"))
				}
				// a write happens on every iteration (lock page included): the back edge passes w.Write
				wr := callsTo(fn, nameIs("iface:io.Writer.Write"))
				c.floor(rule, len(wr), 1, "w.Write in DecodeDatabaseTo")
				var cut []Edge
				for _, w := range wr {
					cut = append(cut, factEdges(fn, cmpFact(vIs(resultOf(w, 1)), token.EQL, vNil(), ""))...)
				}
				bad := false
				if cl.Body != nil {
					if reachable(fn, cl.Body, cut)[cl.Header] {
						bad = true
					}
				}
				c.check(!bad, rule, fnName(fn)+": every page number up to Commit (lock page included) writes one page to the output", c.pos(cl.Inc), "back edge passes a successful w.Write", "an iteration can finish without writing a page (the restored file would be shifted)")
			}
			c.floor(rule, n, 1, "dense page loop in DecodeDatabaseTo")
			// the lock page branch zeroes the buffer: a store of constant 0 into the data buffer guarded by pgno == lockPgno
			z := 0
			for _, b := range fn.Blocks {
				for _, in := range b.Instrs {
					if st, ok := in.(*ssa.Store); ok {
						if _, isIA := st.Addr.(*ssa.IndexAddr); isIA && vConstInt(0)(st.Val) {
							z++
							for _, cl := range countedLoops(fn) {
								if cl.Phi.Type().String() == "uint32" {
									c.requireGuard(rule, fn, Site{st, "data[i] = 0"}, cmpFact(vIs(cl.Phi), token.EQL, lockV, "pgno == lockPgno"))
								}
							}
						}
					}
				}
			}
			c.floor(rule, z, 1, "zeroing of the lock page buffer in DecodeDatabaseTo")
		}
	}
}

// c17DerivedFromPageSize: the lock page number depends on the page size, and the page size
// is re-read every time a database is (re)opened.  A value derived from DB.pageSize that is
// kept in a field the reference struct did not have (a memo) is refreshed wherever
// DB.pageSize is assigned; otherwise a re-opened database with another page size keeps the
// old lock page number and the real lock page is no longer skipped.
func c17DerivedFromPageSize(c *Ctx) {
	const rule = "R4-page-size-derived-state"
	if refFields == nil {
		refFields = loadAnchorFields()
	}
	if len(refFields) == 0 {
		return
	}
	var dependsOnPageSize func(v ssa.Value, d int) bool
	dependsOnPageSize = func(v ssa.Value, d int) bool {
		if v == nil || d > 4 {
			return false
		}
		if vFieldLoad("DB.pageSize", nil)(v) {
			return true
		}
		for _, o := range origins(v) {
			switch x := o.(type) {
			case *ssa.Call:
				for _, a := range x.Call.Args {
					if dependsOnPageSize(a, d+1) {
						return true
					}
				}
			case *ssa.BinOp:
				if dependsOnPageSize(x.X, d+1) || dependsOnPageSize(x.Y, d+1) {
					return true
				}
			case *ssa.Convert:
				if dependsOnPageSize(x.X, d+1) {
					return true
				}
			}
		}
		return false
	}
	memo := map[string]bool{}
	for _, g := range c.P.ProdFuncs() {
		for _, b := range g.Blocks {
			for _, in := range b.Instrs {
				st, ok := in.(*ssa.Store)
				if !ok {
					continue
				}
				fa, ok := st.Addr.(*ssa.FieldAddr)
				if !ok {
					continue
				}
				nm := fieldAddrName(fa)
				if !strings.HasPrefix(nm, "DB.") || refFields[nm] {
					continue
				}
				if dependsOnPageSize(st.Val, 0) {
					memo[nm] = true
				}
			}
		}
	}
	for nm := range memo {
		for _, g := range c.P.ProdFuncs() {
			if g.Parent() != nil {
				continue
			}
			assigns := len(storesToField(g, "DB.pageSize")) > 0
			// ... or hands out its address (`Scan(&db.pageSize)`)
			for _, h := range withClosures(g) {
				for _, b := range h.Blocks {
					for _, in := range b.Instrs {
						fa, ok := in.(*ssa.FieldAddr)
						if !ok || fieldAddrName(fa) != "DB.pageSize" || fa.Referrers() == nil {
							continue
						}
						for _, r := range *fa.Referrers() {
							switch x := r.(type) {
							case *ssa.UnOp, *ssa.DebugRef:
							case *ssa.Store:
								if x.Addr != ssa.Value(fa) {
									assigns = true
								}
							default:
								assigns = true
							}
						}
					}
				}
			}
			if !assigns {
				continue
			}
			c.check(len(storesToFieldDeep(g, nm)) > 0, rule, fnName(g)+": assigns DB.pageSize and refreshes "+nm+" derived from it", c.P.Pos(g.Pos()), "both stored",
				nm+" caches a value computed from DB.pageSize but is not refreshed where the page size is assigned: after a re-open with another page size the stale value is used (the lock page is computed for the old page size)")
		}
	}
	c.ok(rule, "fields of DB derived from DB.pageSize and kept across calls", "", fmt.Sprintf("%d such field(s) on this tree", len(memo)))
}
