package main

// C17 — databases crossing the 1 GiB lock page replicate and restore correctly.

import (
	"go/token"

	"golang.org/x/tools/go/ssa"
)

func init() {
	register(&PropSpec{
		ID:  "C17",
		Run: runC17,
		Explanation: "Every dense page loop of the production program that encodes or schedules page `pgno` (writeLTXFromDB, the growth loop of writeLTXFromWAL) is cut by pgno != ltx.LockPgno(uint32(db.pageSize)) " +
			"(edge-cut reachability; the comparison is symbolic in the page size, so it holds for every page size); on ltx v0.5.2 itself: Encoder.EncodePage cannot succeed for the lock page, " +
			"Decoder.DecodeDatabaseTo writes a zeroed page at the lock page number and decodes no page there.  Non-dense page sources are listed with the reason they cannot contain the lock page. Page-copy provenance (shared with C01): database pages are read at (pgno-1)*pageSize into the buffer that is encoded, WAL pages at their frame offset.",
		NotDecided:  "byte equality of all other pages (C01); behaviour of SQLite itself around the pending byte",
		Assumptions: []string{"SQLite never writes the lock-byte page, so it never appears in a WAL frame"},
	})
}

func runC17(c *Ctx) {
	offsetWidthRule(c, "R2-offsets-64bit")
	applyResizeRule(c, "R3-follower-resized-to-commit")
	pageCopyRules(c, "R1-dense-loops-skip-lock-page", false)
	// other counted uint32 loops feeding EncodePage anywhere in production code
	{
		const rule = "R1-dense-loops-skip-lock-page"
		n := 0
		for _, fn := range c.P.ProdFuncs() {
			encs := callsTo(fn, nameIs("(*ltx.Encoder).EncodePage"))
			if len(encs) == 0 {
				continue
			}
			n++
			dense := false
			for _, cl := range countedLoops(fn) {
				for _, e := range encs {
					if v, ok := compositeFields(e.Common().Args[1])["Pgno"]; ok && vIs(cl.Phi)(v) {
						dense = true
					}
				}
			}
			nm := fnName(fn)
			switch {
			case nm == "(*ls.DB).writeLTXFromDB":
			case nm == "(*ls.DB).writeLTXFromWAL":
				// pages come from the sorted list: WAL page map keys + growth loop (guarded above)
				c.ok(rule, nm+": encode loop iterates the page list (WAL frames cannot be the lock page; growth pages are guarded)", c.P.Pos(fn.Pos()), "non-dense source")
			case dense:
				c.fail(rule, nm+": dense page loop encodes pages without a lock-page skip rule", c.P.Pos(fn.Pos()), "a new dense page loop feeds EncodePage; it must skip ltx.LockPgno")
			default:
				c.ok(rule, nm+": EncodePage fed from a non-dense page set", c.P.Pos(fn.Pos()), "pages come from an explicit set (dirty pages / index), never a dense range")
			}
		}
		c.floor(rule, n, 2, "functions calling EncodePage")
	}
	// R2: ltx library obligations
	{
		const rule = "R2-ltx-rejects-lock-page"
		if fn := c.fn(rule, "(*ltx.Encoder).EncodePage"); fn != nil {
			lock := vResult(nameIs("ltx.LockPgno"), 0)
			for _, r := range successReturns(fn) {
				c.requireGuard(rule, fn, Site{r, "success return"}, cmpFact(vFieldLoad("PageHeader.Pgno", nil), token.NEQ, lock, "hdr.Pgno != LockPgno(pageSize)"))
			}
			for _, lp := range callsTo(fn, nameIs("ltx.LockPgno")) {
				c.check(vFieldPath("Encoder.header", "Header.PageSize")(lp.Common().Args[0]) || vFieldLoad("Header.PageSize", nil)(lp.Common().Args[0]), rule, fnName(fn)+": lock page from the header's page size", c.pos(lp), "enc.header.PageSize", "unexpected page size source")
			}
		}
		if fn := c.fn(rule, "(*ltx.Decoder).DecodeDatabaseTo"); fn != nil {
			lockV := vOr(vResult(nameIs("(*ltx.Header).LockPgno"), 0), vResult(nameIs("ltx.LockPgno"), 0), vResult(nameIs("(ltx.Header).LockPgno"), 0))
			n := 0
			for _, cl := range countedLoops(fn) {
				if cl.Phi.Type().String() != "uint32" {
					continue
				}
				n++
				pg := vIs(cl.Phi)
				for _, dp := range callsTo(fn, nameIs("(*ltx.Decoder).DecodePage")) {
					if !cl.Header.Dominates(dp.Block()) || !reachable(fn, dp.Block(), nil)[cl.Header] {
						continue
					}
					c.requireGuard(rule, fn, Site{dp, "DecodePage inside the page loop"}, cmpFact(pg, token.NEQ, lockV, "pgno != lockPgno"))
				}
				// a write happens on every iteration (lock page included): the back edge passes w.Write
				wr := callsTo(fn, nameIs("iface:io.Writer.Write"))
				c.floor(rule, len(wr), 1, "w.Write in DecodeDatabaseTo")
				var cut []Edge
				for _, w := range wr {
					cut = append(cut, factEdges(fn, cmpFact(vIs(resultOf(w, 1)), token.EQL, vNil(), ""))...)
				}
				bad := false
				if cl.Body != nil {
					if reachable(fn, cl.Body, cut)[cl.Header] {
						bad = true
					}
				}
				c.check(!bad, rule, fnName(fn)+": every page number up to Commit (lock page included) writes one page to the output", c.pos(cl.Inc), "back edge passes a successful w.Write", "an iteration can finish without writing a page (the restored file would be shifted)")
			}
			c.floor(rule, n, 1, "dense page loop in DecodeDatabaseTo")
			// the lock page branch zeroes the buffer: a store of constant 0 into the data buffer guarded by pgno == lockPgno
			z := 0
			for _, b := range fn.Blocks {
				for _, in := range b.Instrs {
					if st, ok := in.(*ssa.Store); ok {
						if _, isIA := st.Addr.(*ssa.IndexAddr); isIA && vConstInt(0)(st.Val) {
							z++
							for _, cl := range countedLoops(fn) {
								if cl.Phi.Type().String() == "uint32" {
									c.requireGuard(rule, fn, Site{st, "data[i] = 0"}, cmpFact(vIs(cl.Phi), token.EQL, lockV, "pgno == lockPgno"))
								}
							}
						}
					}
				}
			}
			c.floor(rule, z, 1, "zeroing of the lock page buffer in DecodeDatabaseTo")
		}
	}
}
