package main

// C04 — when continuity with the WAL cannot be proven, litestream re-snapshots.

import (
	"go/token"
	"strings"

	"golang.org/x/tools/go/ssa"
)

func init() {
	register(&PropSpec{
		ID:  "C04",
		Run: runC04,
		Explanation: "Necessary conditions of the continuity decision, decided on every path of verifyWithExecutor and its callers: (R1) default-deny — snapshotting is true at entry and each store of false is reachable only through the evidence edges of its case " +
			"(expected truncation: previous sync reached the WAL end; same generation: both header salts match; first-frame/at-header cases; last synced frame byte-identical and salts of that frame match; no unknown intermediate generation); the helpers' verdicts are pinned " +
			"(lastPageMatch returns true only for equal page number, equal bytes and matching frame salts; detectFullCheckpoint reports any unknown salt); (R2) session state does not survive DB.Close; (R3) any function that wipes the local LTX directory of a live database re-establishes the baseline; " +
			"(R4) init starts the replica only after the behind-replica check succeeded; (R5) on a salt change the decision to continue incrementally depends on WAL bytes at the old cursor (a frame of the previous generation there forces a snapshot); " +
			"(R6) checkDatabaseBehindReplica is fail-stop for a failed remote listing and fetches the replica's newest L0 file when the database is behind.",
		NotDecided:  "sufficiency of the evidence for every SQLite WAL history (semantic, not shape); replacement of the database file by another version; correctness of detectFullCheckpoint's salt scan beyond its verdict expression",
		Assumptions: []string{"WAL salts change on every WAL restart (SQLite increments salt-1 and randomises salt-2)"},
	})
}

func runC04(c *Ctx) {
	c04DefaultDeny(c)
	c04Helpers(c)
	c04SessionState(c)
	c04Wipe(c)
	c04Init(c)
	c04Behind(c)
}

// saltMatch value: a boolean phi fed by comparisons against the LTX header's WAL salts.
func isSaltMatch(v ssa.Value) bool {
	// handed to an extracted helper as a parameter: every call site passes the salt-match value
	if p, isP := v.(*ssa.Parameter); isP {
		more := paramOrigins(p, 0)
		if len(more) == 0 {
			return false
		}
		for _, m := range more {
			if _, again := m.(*ssa.Parameter); again || !isSaltMatch(m) {
				return false
			}
		}
		return true
	}
	phi, ok := v.(*ssa.Phi)
	if !ok || phi.Type().String() != "bool" {
		return false
	}
	for _, e := range phi.Edges {
		if b, ok := e.(*ssa.BinOp); ok && b.Op == token.EQL {
			if vFieldLoad("Header.WALSalt2", nil)(b.X) || vFieldLoad("Header.WALSalt2", nil)(b.Y) || vFieldLoad("Header.WALSalt1", nil)(b.X) || vFieldLoad("Header.WALSalt1", nil)(b.Y) {
				return true
			}
		}
	}
	return false
}

func c04DefaultDeny(c *Ctx) {
	const rule = "R1-default-deny"
	fn := c.fn(rule, "(*ls.DB).verifyWithExecutor")
	if fn == nil {
		return
	}
	name := fnName(fn)
	var stTrue []*ssa.Store
	var stFalse []*ssa.Store
	for _, st := range storesToFieldDeep(fn, "syncInfo.snapshotting") {
		if vConstBool(true)(st.Val) {
			stTrue = append(stTrue, st)
		} else {
			stFalse = append(stFalse, st)
		}
	}
	// (4 on the reference tree; identical branches may be merged into a helper)
	c.floor(rule, len(stFalse), 2, "stores of snapshotting=false")
	// default: set true in the entry block before anything else can return
	okDef := false
	for _, st := range stTrue {
		if st.Block() == fn.Blocks[0] {
			okDef = true
		}
	}
	c.check(okDef, rule, name+": info.snapshotting = true in the entry block (default deny)", c.P.Pos(fn.Pos()), "found", "the default is no longer 'snapshot required'")
	for _, st := range stFalse {
		c.check(vConstBool(false)(st.Val) && isConst(st.Val), rule, name+": snapshotting is only ever assigned constants", c.pos(st), "constant", "computed value")
	}
	syncedToEnd := truthFact(vFieldPath("syncExecutor.state", "syncState.syncedToWALEnd"), true, "exec.state.syncedToWALEnd")
	saltOK := truthFact(isSaltMatch, true, "saltMatch")
	lastOK := truthFact(vResult(nameIs("(*ls.DB).lastPageMatch"), 0), true, "lastPageMatch")
	noUnknownGen := truthFact(vResult(nameIs("(*ls.DB).detectFullCheckpoint"), 0), false, "!detectFullCheckpoint")
	grewPast := truthFact(vResult(nameIs("(*ls.DB).walGenerationGrewPast"), 0), false, "!previous generation grew past the cursor")
	atHeader := cmpFact(vFieldLoad("syncInfo.offset", nil), token.EQL, vConstInt(32), "info.offset == WALHeaderSize")
	firstFrame := cmpFact(vBinOp(token.SUB, vFieldLoad("syncInfo.offset", nil), vAny(), false), token.EQL, vConstInt(32), "prevWALOffset == WALHeaderSize")
	truncated := cmpFact(vFieldLoad("syncInfo.offset", nil), token.GTR, vCallResult(nameHasSuffix(".Size")), "info.offset > wal size")
	for _, st := range stFalse {
		s := Site{st, "info.snapshotting = false"}
		// generation evidence
		c.requireAlts(rule, fn, s, []FP{syncedToEnd, saltOK, noUnknownGen})
		// position evidence
		c.requireAlts(rule, fn, s, []FP{syncedToEnd, atHeader, firstFrame, lastOK})
		// the expected-truncation shortcut is only taken when the WAL really is shorter than the cursor
		c.requireAlts(rule, fn, s, []FP{truncated, saltOK, lastOK})
		// unknown-generation verdict is consulted only together with an intact last frame
		if g, n := guardedBy(st, noUnknownGen); n > 0 && g {
			c.requireGuard(rule, fn, s, lastOK)
			// R5: and with the cursor-tail inspection
			c.requireGuard("R5-cursor-tail-inspected", fn, s, grewPast)
		}
	}
	// salts compared are the current WAL header's vs the LTX header's, both words
	c.floor(rule, len(factEdges(fn, cmpFact(vU32At(nil, 16), token.EQL, vFieldLoad("Header.WALSalt1", nil), ""))), 1, "salt1 comparison (wal hdr[16:] vs ltx WALSalt1)")
	nSalt2 := 0
	for _, b := range fn.Blocks {
		for _, in := range b.Instrs {
			if bo, ok := in.(*ssa.BinOp); ok && bo.Op == token.EQL && vU32At(nil, 20)(bo.X) && vFieldLoad("Header.WALSalt2", nil)(bo.Y) {
				nSalt2++
			}
		}
	}
	c.floor(rule, nSalt2, 1, "salt2 comparison (wal hdr[20:] vs ltx WALSalt2)")
	// first sync: TXID 0 starts at the header and snapshots
	for _, r := range successReturns(fn) {
		if g, n := guardedBy(r, cmpFact(vFieldPath("syncExecutor.pos", "Pos.TXID"), token.EQL, vConstInt(0), "")); n > 0 && g {
			for _, st := range stFalse {
				c.check(!dominates(st, r), rule, name+": the first sync (TXID 0) snapshots", c.pos(r), "no snapshotting=false before it", "first sync does not snapshot")
			}
		}
	}

	// R7: once the WAL header salts differ from the synced file's and the last
	// synced frame is still intact, the old cursor points into the previous
	// generation: whatever verify decides, the copy must restart at the WAL header
	// with the current salts (otherwise sync resumes inside the stale generation,
	// NewWALReaderWithOffset accepts the intact previous frame, and stale frames
	// are copied over newer pages).
	{
		const rule7 = "R7-restart-reads-from-header"
		saltBad := truthFact(isSaltMatch, false, "!saltMatch")
		n7 := 0
		for _, r := range successReturns(fn) {
			g1, k1 := guardedBy(r, lastOK)
			g2, k2 := guardedBy(r, saltBad)
			if !(k1 > 0 && g1 && k2 > 0 && g2) {
				continue
			}
			n7++
			okOff, okS1, okS2 := false, false, false
			for _, st := range storesToField(fn, "syncInfo.offset") {
				if vConstInt(32)(st.Val) && dominates(st, r) {
					if g, k := guardedBy(st, saltBad); k > 0 && g {
						okOff = true
					}
				}
			}
			for _, st := range storesToField(fn, "syncInfo.salt1") {
				if vU32At(nil, 16)(st.Val) && dominates(st, r) {
					if g, k := guardedBy(st, saltBad); k > 0 && g {
						okS1 = true
					}
				}
			}
			for _, st := range storesToField(fn, "syncInfo.salt2") {
				if vU32At(nil, 20)(st.Val) && dominates(st, r) {
					if g, k := guardedBy(st, saltBad); k > 0 && g {
						okS2 = true
					}
				}
			}
			c.check(okOff && okS1 && okS2, rule7, name+": a return on the restarted-WAL path (salts changed, last synced frame intact) carries offset = WALHeaderSize and the current header salts", c.pos(r),
				"info.offset = 32 and info.salt1/2 = wal hdr[16:]/[20:] dominate the return", "the cursor still points into the previous WAL generation: the copy resumes at the stale offset with the old salts and replicates stale frames")
		}
		c.floor(rule7, n7, 2, "returns on the restarted-WAL path")
	}

	// R5: the cursor-tail inspection reads the WAL at the old cursor (info.offset before it is reset), with the old salts
	const rule5 = "R5-cursor-tail-inspected"
	calls5 := callsTo(fn, nameIs("(*ls.DB).walGenerationGrewPast"))
	if len(calls5) == 0 {
		// generic formulation: on the salt-changed path some WAL read must use an offset >= the cursor
		found := false
		for _, call := range calls(fn) {
			if nm := calleeName(call); nm == "ls.readWALFileAt" {
				off := refArgs(call)[1]
				if vFieldLoad("syncInfo.offset", nil)(off) && !vBinOp(token.SUB, vAny(), vAny(), false)(off) {
					found = true
				}
			}
		}
		c.check(found, rule5, name+": the salt-changed branch inspects the WAL at the old cursor before continuing incrementally", c.P.Pos(fn.Pos()), "a WAL read at offset >= cursor exists",
			"on a WAL restart the decision to continue incrementally never looks at the WAL at or beyond the old cursor: frames the previous generation appended after the last sync are lost")
	} else {
		for _, call := range calls5 {
			a := call.Common().Args // leaf-based and order-free: today's arguments themselves
			// the old cursor and both previous-generation salt words are handed over
			// (positionally, or bundled in an array literal)
			var leaves []ssa.Value
			for _, x := range a[1:] {
				leaves = append(leaves, x)
				if u, isU := x.(*ssa.UnOp); isU {
					if al, isA := u.X.(*ssa.Alloc); isA {
						for _, r := range *al.Referrers() {
							if ia, isIA := r.(*ssa.IndexAddr); isIA {
								for _, rr := range *ia.Referrers() {
									if st, isSt := rr.(*ssa.Store); isSt && st.Addr == ssa.Value(ia) {
										leaves = append(leaves, st.Val)
									}
								}
							}
						}
					}
				}
			}
			has := func(m VM) bool {
				for _, l := range leaves {
					if m(l) {
						return true
					}
				}
				return false
			}
			ok := has(vFieldLoad("syncInfo.offset", nil)) && has(vFieldLoad("Header.WALSalt1", nil)) && has(vFieldLoad("Header.WALSalt2", nil))
			// the offset must still be the old cursor: no store of WALHeaderSize to info.offset dominates the call
			for _, st := range storesToField(fn, "syncInfo.offset") {
				if vConstInt(32)(st.Val) && dominates(st, call) {
					ok = false
				}
			}
			c.check(ok, rule5, name+": the salt-changed branch inspects the WAL at the old cursor before continuing incrementally", c.pos(call), "walGenerationGrewPast(info.offset (old cursor), frameSize, old salts)", "the inspection does not look at the old cursor with the previous generation's salts")
			okF, why := failStopOK(fn, call)
			c.check(okF, rule5, name+": a failed inspection is an error, not 'continue'", c.pos(call), "fail-stop", why)
		}
		if h := c.fn(rule5, "(*ls.DB).walGenerationGrewPast"); h != nil {
			for _, r := range returns(h) {
				v := retOperand(r, 0)
				if k, isK := v.(*ssa.Const); isK && k.Value.String() == "false" {
					continue
				}
				if !canSucceed(r) {
					continue
				}
				// the verdict compares both salt words of the frame header at `offset`
				ok := false
				for _, o := range origins(v) {
					if b, isB := o.(*ssa.BinOp); isB && b.Op == token.EQL {
						ok = true
					}
					if _, isPhi := o.(*ssa.Phi); isPhi {
						ok = true
					}
				}
				c.check(ok, rule5, fnName(h)+": verdict = frame salts at offset equal the previous generation's salts", c.pos(r), "comparison", "unexpected verdict expression")
			}
			for _, rd := range callsTo(h, nameIs("ls.readWALFileAt")) {
				c.check(vParam("offset")(refArgs(rd)[1]), rule5, fnName(h)+": reads the frame header at the given offset", c.pos(rd), "offset parameter", "reads elsewhere")
			}
			c.floor(rule5, len(factEdges(h, cmpFact(vCallResult(nameHasSuffix(".Size")), token.LSS, vBinOp(token.ADD, vParam("offset"), vAny(), true), ""))), 1, "bounds check (no frame at the cursor)")
		}
	}
}

func c04Helpers(c *Ctx) {
	const rule = "R1-default-deny"
	if fn := c.fn(rule, "(*ls.DB).lastPageMatch"); fn != nil {
		n := 0
		for _, r := range returns(fn) {
			if len(r.Results) == 0 || !vConstBool(true)(r.Results[0]) || !isConst(r.Results[0]) {
				continue
			}
			n++
			s := Site{r, "return true"}
			c.requireGuard(rule, fn, s, cmpFact(vU32At(nil, 0), token.EQL, vFieldLoad("PageHeader.Pgno", nil), "frame pgno == ltx page pgno"))
			c.requireGuard(rule, fn, s, truthFact(vCall("bytes.Equal", nil, nil), true, "bytes.Equal(frame data, ltx page)"))
			c.requireGuard(rule, fn, s, cmpFact(vU32At(nil, 8), token.EQL, vFieldLoad("Header.WALSalt1", nil), "frame salt1 == ltx WALSalt1"))
			c.requireGuard(rule, fn, s, cmpFact(vU32At(nil, 12), token.EQL, vFieldLoad("Header.WALSalt2", nil), "frame salt2 == ltx WALSalt2"))
			c.requireGuard(rule, fn, s, cmpFact(vParam("prevWALOffset"), token.GTR, vConstInt(32), "prevWALOffset > WALHeaderSize"))
		}
		c.floor(rule, n, 1, "return true in lastPageMatch")
		for _, rd := range callsTo(fn, nameIs("ls.readWALFileAt")) {
			a := refArgs(rd)
			c.check(vParam("prevWALOffset")(a[1]) && vParam("frameSize")(a[2]), rule, fnName(fn)+": reads exactly one frame at prevWALOffset", c.pos(rd), "provenance matches", "reads the wrong frame")
		}
	}
	if fn := c.fn(rule, "(*ls.DB).verifyWithExecutor"); fn != nil {
		for _, call := range callsTo(fn, nameIs("(*ls.DB).lastPageMatch")) {
			a := refArgs(call)
			ok := vBinOp(token.SUB, vFieldLoad("syncInfo.offset", nil), vAny(), false)(a[3])
			c.check(ok, rule, fnName(fn)+": last page is the frame just before the cursor (info.offset - frameSize)", c.pos(call), "provenance matches", "wrong frame compared")
		}
		// info.offset = WALOffset + WALSize of the last LTX file
		n := 0
		for _, st := range storesToField(fn, "syncInfo.offset") {
			if vConstInt(32)(st.Val) {
				continue
			}
			n++
			c.check(vBinOp(token.ADD, vFieldLoad("Header.WALOffset", nil), vFieldLoad("Header.WALSize", nil), true)(st.Val), rule, fnName(fn)+": cursor = WALOffset + WALSize of the last LTX header", c.pos(st), "provenance matches", "cursor not derived from the last LTX file")
		}
		c.floor(rule, n, 1, "cursor assignment")
		// the LTX file examined is the one at exec.pos
		for _, lp := range callsTo(fn, nameIs("(*ls.DB).LTXPath")) {
			a := refArgs(lp)
			pos := vFieldPath("syncExecutor.pos", "Pos.TXID")
			c.check(vConstInt(0)(a[1]) && pos(a[2]) && pos(a[3]), rule, fnName(fn)+": examines the L0 file at the executor's position", c.pos(lp), "LTXPath(0, pos, pos)", "wrong file")
		}
	}
	if fn := c.fn(rule, "(*ls.DB).detectFullCheckpoint"); fn != nil {
		n := 0
		for _, r := range successReturns(fn) {
			v := retOperand(r, 0)
			b, ok := v.(*ssa.BinOp)
			if !ok {
				continue
			}
			n++
			good := false
			if vLenOf(nil)(b.X) {
				k, isK := constInt(b.Y)
				switch {
				case b.Op == token.GEQ && isK && k == 1, b.Op == token.GTR && isK && k == 0, b.Op == token.NEQ && isK && k == 0:
					good = true
				}
			}
			c.check(good, rule, fnName(fn)+": verdict = at least one unknown frame salt (len(m) >= 1)", c.pos(r), "len(m) >= 1", "a single unknown WAL generation is tolerated: its frames were never copied, yet replication would continue incrementally")
			// m comes from FrameSaltsUntil and only the known salts are removed
			okM := false
			if call, isCall := b.X.(*ssa.Call); isCall && len(call.Call.Args) == 1 {
				okM = vResult(nameIs("(*ls.WALReader).FrameSaltsUntil"), 0)(call.Call.Args[0])
			}
			c.check(okM, rule, fnName(fn)+": counts the salts found by FrameSaltsUntil", c.pos(r), "provenance matches", "counts something else")
		}
		c.floor(rule, n, 1, "verdict expression in detectFullCheckpoint")
		for _, d := range calls(fn) {
			if calleeName(d) == "builtin:delete" {
				// key ranges over knownSalts
				key := refArgs(d)[1]
				ok := false
				for _, o := range origins(key) {
					if u, isU := o.(*ssa.UnOp); isU {
						if ia, isIA := u.X.(*ssa.IndexAddr); isIA && vParam("knownSalts")(ia.X) {
							ok = true
						}
					}
				}
				c.check(ok, rule, fnName(fn)+": only known salts are removed from the set", c.pos(d), "key ranges over knownSalts", "unknown salts can be discarded")
			}
		}
	}
	if fn := c.fn(rule, "(*ls.DB).verifyWithExecutor"); fn != nil {
		for _, call := range callsTo(fn, nameIs("(*ls.DB).detectFullCheckpoint")) {
			// known salts = {current header salts, ..., salts of the last synced file}: the
			// scan stops at the LAST element, which must be the generation litestream already
			// copied (stopping at the current generation would end the scan at the first frame
			// and no intermediate generation could ever be seen)
			pairs := saltPairsLiteral(refArgs(call)[2])
			okK := len(pairs) >= 2
			if okK {
				last := pairs[len(pairs)-1]
				first := pairs[0]
				okK = last[0] != nil && last[1] != nil && first[0] != nil && first[1] != nil &&
					vFieldLoad("Header.WALSalt1", nil)(last[0]) && vFieldLoad("Header.WALSalt2", nil)(last[1]) &&
					vU32At(nil, 16)(first[0]) && vU32At(nil, 20)(first[1])
			}
			c.check(okK, rule, fnName(fn)+": detectFullCheckpoint is given {current header salts, …, salts of the last synced file} in that order", c.pos(call), "literal elements match",
				"the known-salt list does not end with the last synced generation's salts: the frame-salt scan stops at the wrong generation and an unseen intermediate WAL generation goes undetected")
		}
	}
	if fn := c.fn(rule, "(*ls.DB).detectFullCheckpoint"); fn != nil {
		for _, call := range callsTo(fn, nameIs("(*ls.WALReader).FrameSaltsUntil")) {
			// stop salt = knownSalts[len(knownSalts)-1]
			ok := false
			for _, o := range origins(refArgs(call)[2]) {
				if u, isU := o.(*ssa.UnOp); isU {
					if ia, isIA := u.X.(*ssa.IndexAddr); isIA && vParam("knownSalts")(ia.X) && isLenMinusOne(ia.Index, ia.X) {
						ok = true
					}
				}
			}
			c.check(ok, rule, fnName(fn)+": the frame-salt scan stops at the last known salt", c.pos(call), "knownSalts[len-1]", "the scan stops at another element")
		}
	}
}

// saltPairsLiteral extracts the elements of a [][2]uint32{{a,b},{c,d},…} literal.
func saltPairsLiteral(v ssa.Value) [][2]ssa.Value {
	var outer *ssa.Alloc
	for _, o := range origins(v) {
		if sl, ok := o.(*ssa.Slice); ok {
			if a, ok := sl.X.(*ssa.Alloc); ok {
				outer = a
			}
		}
	}
	if outer == nil {
		return nil
	}
	res := map[int64][2]ssa.Value{}
	var maxI int64 = -1
	for _, r := range *outer.Referrers() {
		ia, ok := r.(*ssa.IndexAddr)
		if !ok {
			continue
		}
		i, ok := constInt(ia.Index)
		if !ok {
			continue
		}
		var pair [2]ssa.Value
		for _, rr := range *ia.Referrers() {
			st, ok := rr.(*ssa.Store)
			if !ok || st.Addr != ssa.Value(ia) {
				continue
			}
			// value: load of an inner [2]uint32 literal
			if u, ok := st.Val.(*ssa.UnOp); ok {
				if inner, ok := u.X.(*ssa.Alloc); ok {
					for _, r2 := range *inner.Referrers() {
						ja, ok := r2.(*ssa.IndexAddr)
						if !ok {
							continue
						}
						j, ok := constInt(ja.Index)
						if !ok || j < 0 || j > 1 {
							continue
						}
						for _, r3 := range *ja.Referrers() {
							if s3, ok := r3.(*ssa.Store); ok && s3.Addr == ssa.Value(ja) {
								pair[j] = s3.Val
							}
						}
					}
				}
			}
		}
		res[i] = pair
		if i > maxI {
			maxI = i
		}
	}
	var out [][2]ssa.Value
	for i := int64(0); i <= maxI; i++ {
		out = append(out, res[i])
	}
	return out
}

func variadicElemsOfSlice(v ssa.Value) []ssa.Value {
	var out []ssa.Value
	for _, o := range origins(v) {
		sl, ok := o.(*ssa.Slice)
		if !ok {
			continue
		}
		if al, ok := sl.X.(*ssa.Alloc); ok {
			for _, r := range *al.Referrers() {
				if ia, ok := r.(*ssa.IndexAddr); ok {
					out = append(out, ia)
				}
			}
		}
	}
	return out
}

func c04SessionState(c *Ctx) {
	const rule = "R2-session-state-reset"
	fn := c.fn(rule, "(*ls.DB).Close")
	if fn == nil {
		return
	}
	var clr *ssa.Store
	for _, st := range storesToField(fn, "DB.syncState") {
		if st.Block().Parent() != fn {
			continue
		}
		// zero value: constant zero struct or load of an untouched local
		zero := false
		switch v := st.Val.(type) {
		case *ssa.Const:
			zero = true
		case *ssa.UnOp:
			if al, ok := v.X.(*ssa.Alloc); ok && len(cellStores(al)) == 0 && len(compositeFields(al)) == 0 {
				zero = true
			}
		}
		if zero {
			clr = st
		}
	}
	ok := clr != nil
	if ok {
		// on every path that reaches the teardown (where db.db is cleared)
		for _, st := range storesToField(fn, "DB.db") {
			if st.Block().Parent() == fn && isNilConst(st.Val) {
				ok = ok && (st.Block() == clr.Block() || clr.Block().Dominates(st.Block()) || st.Block().Dominates(clr.Block()))
				// and no return between them
			}
		}
	}
	if clr != nil {
		// the clear is final: no call that can store DB.syncState (the shutdown sync writes the
		// executor's state back) is reachable after it
		writers := funcsReachingStore(c.P, "DB.syncState")
		region := reachable(fn, clr.Block(), nil)
		late := ""
		for _, k := range calls(fn) {
			if _, isDefer := k.(*ssa.Defer); isDefer {
				continue
			}
			h := k.Common().StaticCallee()
			if h == nil || !writers[h] {
				continue
			}
			after := region[k.Block()] && k.Block() != clr.Block()
			if k.Block() == clr.Block() && instrIndex(k) > instrIndex(clr) {
				after = true
			}
			if after {
				late = calleeName(k) + " @ " + c.pos(k)
			}
		}
		c.check(late == "", rule, fnName(fn)+": nothing restores DB.syncState after it was cleared", c.pos(clr), "no writer of DB.syncState is called after the clear",
			"the session state is cleared before "+late+", which stores the executor's WAL cursor back: the closed DB keeps syncedToWALEnd/lastSyncedWALOffset and a WAL truncated while it was closed is taken for litestream's own checkpoint after a restart")
	}
	c.check(ok, rule, fnName(fn)+": clears DB.syncState in the teardown block", c.P.Pos(fn.Pos()), "db.syncState = syncState{} next to db.db = nil", "the in-memory WAL cursor (syncedToWALEnd, lastSyncedWALOffset) survives Close: after a stop/start of the same DB object a WAL truncated by the application is taken for litestream's own checkpoint and replication continues incrementally, skipping frames")
	// newSyncExecutor seeds each executor from db.syncState and applySyncExecutor writes it back (session-scoped)
	if ne := c.fn(rule, "(*ls.DB).newSyncExecutor"); ne != nil {
		okSeed := false
		for _, r := range successReturns(ne) {
			for _, o := range origins(retOperand(r, 0)) {
				if f := compositeFields(o); f != nil && vFieldLoad("DB.syncState", nil)(f["state"]) {
					okSeed = true
				}
			}
		}
		c.check(okSeed, rule, fnName(ne)+": executor state is seeded from db.syncState", c.P.Pos(ne.Pos()), "state: db.syncState", "executor state has another source")
	}
}

func c04Wipe(c *Ctx) {
	const rule = "R3-baseline-after-wipe"
	n := 0
	for _, fn := range c.P.ProdFuncs() {
		if fn.Parent() != nil {
			continue
		}
		for _, call := range callsTo(fn, nameIs("os.RemoveAll")) {
			p := call.Common().Args[0]
			if !(vCallResult(nameIs("(*ls.DB).LTXDir", "(*ls.DB).LTXLevelDir"))(p)) {
				continue
			}
			n++
			name := fnName(fn)
			// after the wipe: a baseline fetch on every success path, unless the database is not live
			base := callSitesV(fn, func(n string) bool {
				return n == "(*ls.DB).checkDatabaseBehindReplica" || strings.HasSuffix(n, ".OpenLTXFile")
			})
			avoid := map[*ssa.BasicBlock]bool{}
			for _, b := range base {
				avoid[b.At().Block()] = true
			}
			notLive := []FP{
				cmpFact(vFieldLoad("DB.db", nil), token.EQL, vNil(), "db.db == nil (not initialised)"),
				cmpFact(vFieldLoad("DB.Replica", nil), token.EQL, vNil(), "no replica"),
			}
			cut := cutEdges(fn, notLive...)
			r := reachableAvoiding(fn, call.Block(), cut, avoid)
			bad := false
			for _, ret := range successReturns(fn) {
				if r[ret.Block()] && !avoid[call.Block()] {
					bad = true
				}
			}
			c.check(len(base) > 0 && !bad, rule, name+": removing the local LTX directory on a live database re-establishes the baseline", c.pos(call),
				"every success path after the wipe fetches the replica's newest L0 file (or the database is not initialised)",
				"the local LTX directory is wiped without fetching a baseline: on a running database the next sync restarts TXIDs at 1 underneath the replica's files")
			// the baseline check compares the *current* local position with the replica: the
			// position cached before the wipe must be dropped between the wipe and the check
			// (a stale cached position at or above the replica's makes the check return early)
			for _, b := range base {
				if calleeName(b.Call()) != "(*ls.DB).checkDatabaseBehindReplica" {
					continue
				}
				okInv := false
				for _, inv := range callSitesV(fn, nameIs("(*ls.DB).invalidatePosCache")) {
					if _, isDefer := inv.Call().(*ssa.Defer); isDefer {
						continue
					}
					if _, isDefer := inv.At().(*ssa.Defer); isDefer {
						continue
					}
					if dominates(call, inv.At()) && dominates(inv.At(), b.At()) {
						okInv = true
					}
				}
				c.check(okInv, rule, name+": the cached position is invalidated between the wipe and the baseline check", c.pos(b.At()),
					"invalidatePosCache() after RemoveAll and before checkDatabaseBehindReplica", "the baseline check runs on the position cached before the wipe: it sees the database level with the replica, fetches nothing, and the next sync restarts at TXID 1 underneath the replica's files")
			}
			// serialised with sync
			if name == "(*ls.DB).ResetLocalState" {
				la := newLockAnalysis(c.P)
				la.interproc()
				c.check(la.heldBefore(call)["DB.execSem"], rule, name+": the wipe runs under the sync executor", c.pos(call), "execSem held", "local state can be wiped while an LTX file is being written")
			}
		}
	}
	c.floor(rule, n, 2, "functions wiping the local LTX directory")
}

func c04Init(c *Ctx) {
	const rule = "R4-init-order"
	fn := c.fn(rule, "(*ls.DB).init")
	if fn == nil {
		return
	}
	bs := callsTo(fn, nameIs("(*ls.DB).checkDatabaseBehindReplica"))
	st := callsTo(fn, nameIs("(*ls.Replica).Start"))
	c.floor(rule, len(bs), 1, "checkDatabaseBehindReplica in init")
	c.floor(rule, len(st), 1, "Replica.Start in init")
	for _, s := range st {
		for _, b := range bs {
			c.requireAlts(rule, fn, Site{s, "Replica.Start"}, []FP{cmpFact(vIs(resultOf(b, 0)), token.EQL, vNil(), "checkDatabaseBehindReplica err == nil"), cmpFact(vFieldLoad("DB.Replica", nil), token.EQL, vNil(), "db.Replica == nil (nothing to start)")})
			okF, why := failStopOK(fn, b)
			c.check(okF, rule, fnName(fn)+": a failed behind-replica check fails init", c.pos(b), "fail-stop", why)
		}
	}
	// init is retried: it returns early only when db.db is set, and a failure resets db.db (rule C05-R7)
}

func c04Behind(c *Ctx) {
	const rule = "R6-behind-replica-check"
	fn := c.fn(rule, "(*ls.DB).checkDatabaseBehindReplica")
	if fn == nil {
		return
	}
	name := fnName(fn)
	for _, call := range callsTo(fn, nameIs("(*ls.Replica).MaxLTXFileInfo")) {
		okF, why := failStopOK(fn, call)
		c.check(okF, rule, name+": a failed remote listing is an error (never 'replica empty')", c.pos(call), "fail-stop", why)
		c.check(vConstInt(0)(refArgs(call)[2]), rule, name+": compares against the replica's level-0 maximum", c.pos(call), "level 0", "wrong level")
		info := resultOf(call, 0)
		// "nothing to do" returns: replica empty or database not behind
		for _, r := range successReturns(fn) {
			if reachable(fn, nil, nil)[r.Block()] {
				fetched := false
				for _, o := range callSitesV(fn, nameHasSuffix(".OpenLTXFile")) {
					if !dominates(o.At(), r) {
						continue
					}
					// ... and the fetch succeeded: the return lies behind the nil edge of the
					// fetch's error (or returns the extracted helper's own result)
					at, isCall := o.At().(ssa.CallInstruction)
					if !isCall {
						continue
					}
					idx := errResultIndex(at.Common().Signature())
					if idx < 0 {
						continue
					}
					ferr := resultOf(at, idx)
					if ferr == nil {
						continue
					}
					if g, k := guardedBy(r, cmpFact(vIs(ferr), token.EQL, vNil(), "")); k > 0 && g {
						fetched = true
					}
					if eo := errOperand(r); eo != nil && eo == ferr {
						fetched = true
					}
				}
				if fetched {
					continue
				}
				c.requireAlts(rule, fn, Site{r, "return nil without fetching"}, []FP{
					cmpFact(vFieldLoad("FileInfo.MaxTXID", vIs(info)), token.EQL, vConstInt(0), "replica has no L0 file"),
					cmpFact(vFieldLoad("Pos.TXID", nil), token.GEQ, vFieldLoad("FileInfo.MaxTXID", vIs(info)), "local TXID >= replica TXID"),
				})
			}
		}
		for _, vo := range callSitesV(fn, nameHasSuffix(".OpenLTXFile")) {
			o := vo.Call()
			a := refArgs(o)
			ok := vConstInt(0)(a[1]) && vFieldLoad("FileInfo.MinTXID", vIs(info))(a[2]) && vFieldLoad("FileInfo.MaxTXID", vIs(info))(a[3])
			c.check(ok, rule, name+": fetches the replica's newest L0 file", c.pos(o), "OpenLTXFile(0, info.MinTXID, info.MaxTXID)", "fetches another file")
		}
	}
	for _, p := range callsTo(fn, nameIs("(*ls.DB).Pos")) {
		okF, why := failStopOK(fn, p)
		c.check(okF, rule, name+": a failed local position read is an error", c.pos(p), "fail-stop", why)
	}
	// the replica maximum the decision is based on comes from a complete listing
	if m := c.fn(rule, "(*ls.Replica).MaxLTXFileInfo"); m != nil {
		c.floor(rule, listingCompleteness(c, rule, m), 1, "listing loop in Replica.MaxLTXFileInfo")
	}
}

// funcsReachingStore: the production functions from which a store to the given field is
// reachable through static calls (closures included).
func funcsReachingStore(p *Prog, field string) map[*ssa.Function]bool {
	direct := map[*ssa.Function]bool{}
	for _, g := range p.ProdFuncs() {
		if len(storesToField(g, field)) > 0 {
			root := g
			for root.Parent() != nil {
				root = root.Parent()
			}
			direct[root] = true
		}
	}
	out := map[*ssa.Function]bool{}
	for f := range direct {
		out[f] = true
	}
	for changed := true; changed; {
		changed = false
		for _, g := range p.ProdFuncs() {
			root := g
			for root.Parent() != nil {
				root = root.Parent()
			}
			if out[root] {
				continue
			}
			for _, k := range calls(g) {
				if h := k.Common().StaticCallee(); h != nil && out[h] {
					out[root] = true
					changed = true
					break
				}
			}
		}
	}
	return out
}
