package main

// C14 — litestream never alters the application's data in the source database.

import (
	"fmt"
	"go/token"
	"regexp"
	"strings"

	"golang.org/x/tools/go/ssa"
)

func init() {
	register(&PropSpec{
		ID:  "C14",
		Run: runC14,
		Explanation: "Closed-world inventory over the production program (E5): every Exec/Query/Prepare call on database/sql handles is enumerated; for handles derived from DB.db (the source) the SQL text folds to a constant (or constant fragments around the checkpoint mode, whose provenance is the three mode constants or the exported DB.Checkpoint parameter), " +
			"write statements mention only _litestream_seq/_litestream_lock, PRAGMAs are limited to journal_mode=wal, page_size, wal_checkpoint; no (*sql.Tx).Commit exists anywhere in production code and every transaction begun on the source is rolled back on every path (a deferred rollback is passed on every path from BeginTx's nil edge, or the tx becomes the tracked long-lived read transaction); " +
			"DB.f is only ever assigned from os.Open (read-only) and no write-class method is applied to it; no create/remove/rename targets a path derived from DB.path; init succeeds only in WAL mode; the DSN disables SQLite's auto-checkpoint. One descriptor: os.Open/OpenFile of the source database path exists only as the long-lived db.f handle (closing a second descriptor would drop the POSIX locks of litestream's SQLite connections).",
		NotDecided:  "SQLite honouring the statements; what the application does with the handle exposed by SQLDB()",
		Assumptions: []string{"database/sql + modernc.org/sqlite execute exactly the SQL text they are given"},
	})
}

var sqlMethods = map[string]int{ // method -> index of the SQL argument (receiver = 0)
	"Exec": 1, "Query": 1, "QueryRow": 1, "Prepare": 1,
	"ExecContext": 2, "QueryContext": 2, "QueryRowContext": 2, "PrepareContext": 2,
}

var reWord = regexp.MustCompile(`[A-Za-z_][A-Za-z_0-9]*`)

// sqlFragments folds a SQL operand to constant fragments; dyn lists the non-constant parts.
func sqlFragments(v ssa.Value) (frags []string, dyn []ssa.Value) {
	if s, ok := constString(v); ok {
		return []string{s}, nil
	}
	if b, ok := v.(*ssa.BinOp); ok && b.Op == token.ADD {
		f1, d1 := sqlFragments(b.X)
		f2, d2 := sqlFragments(b.Y)
		return append(f1, f2...), append(d1, d2...)
	}
	return nil, []ssa.Value{v}
}

func runC14(c *Ctx) {
	c14Probe(c)
	c14OutputUnlink(c, "(*ls.Replica).Restore")
	c14OutputUnlink(c, "(*ls.Replica).RestoreV3")
	isSrc := func(v ssa.Value) bool {
		// handle derived from DB.db: directly, or a Tx/Conn obtained from it, or the tracked read tx
		seen := map[ssa.Value]bool{}
		var w func(v ssa.Value, d int) bool
		w = func(v ssa.Value, d int) bool {
			if v == nil || seen[v] || d > 8 {
				return false
			}
			seen[v] = true
			if vFieldLoad("DB.db", nil)(v) || vFieldLoad("DB.rtx", nil)(v) {
				return true
			}
			for _, o := range origins(v) {
				switch x := o.(type) {
				case *ssa.Extract:
					if call, ok := x.Tuple.(*ssa.Call); ok {
						switch methodName(call) {
						case "BeginTx", "Begin", "Conn":
							if w(call.Call.Args[0], d+1) {
								return true
							}
						}
					}
				case *ssa.Parameter:
					if x.Name() == "tx" && strings.Contains(x.Type().String(), "sql.Tx") && fnName(x.Parent()) == "ls.rollback" {
						return false
					}
				}
			}
			return false
		}
		return w(v, 0)
	}

	// R1 inventory
	{
		const rule = "R1-statement-inventory"
		nSrc, nOther := 0, 0
		for _, fn := range c.P.ProdFuncs() {
			for _, call := range calls(fn) {
				st := call.Common().StaticCallee()
				if st == nil || st.Pkg == nil || st.Pkg.Pkg.Path() != "database/sql" {
					continue
				}
				idx, ok := sqlMethods[st.Name()]
				if !ok || idx >= len(call.Common().Args) {
					continue
				}
				recv := call.Common().Args[0]
				sqlv := call.Common().Args[idx]
				frags, dyn := sqlFragments(sqlv)
				text := strings.Join(frags, "?")
				where := fnName(fn)
				construct := fmt.Sprintf("%s: %s(%q)", where, st.Name(), abbreviate(text))
				if !isSrc(recv) {
					nOther++
					// handles opened on a restore output: PRAGMA only
					okP := len(frags) > 0 && strings.HasPrefix(strings.ToUpper(strings.TrimSpace(frags[0])), "PRAGMA")
					c.check(okP && vCallResult(nameIs("database/sql.Open"))(recv), rule, construct+" on a handle opened by the function itself (restore output)", c.pos(call), "PRAGMA on a non-source handle", "SQL on a handle that is neither the source handle nor a locally opened restore output, or not a PRAGMA")
					continue
				}
				nSrc++
				c.touch(fn)
				up := strings.ToUpper(strings.TrimSpace(text))
				kw := ""
				if m := reWord.FindString(up); m != "" {
					kw = m
				}
				switch kw {
				case "SELECT":
					c.check(len(dyn) == 0, rule, construct+" [read]", c.pos(call), "constant SELECT", "non-constant SELECT on the source")
				case "PRAGMA":
					body := strings.TrimSpace(strings.TrimSuffix(strings.TrimSpace(up[len("PRAGMA"):]), ";"))
					switch {
					case body == "JOURNAL_MODE = WAL" || body == "PAGE_SIZE":
						c.check(len(dyn) == 0, rule, construct+" [allowed pragma]", c.pos(call), "constant", "non-constant pragma")
					case strings.HasPrefix(body, "WAL_CHECKPOINT("):
						okM := len(dyn) <= 1 && len(frags) >= 1
						for _, d := range dyn {
							if !checkpointModeProvenance(c, d, 0) {
								okM = false
							}
						}
						c.check(okM, rule, construct+" [checkpoint; mode from the mode constants or DB.Checkpoint's parameter]", c.pos(call), "mode provenance is closed", "the checkpoint mode can be an arbitrary string (SQL injection into the source database)")
					default:
						c.fail(rule, construct+" [pragma]", c.pos(call), "a PRAGMA outside {journal_mode = wal, page_size, wal_checkpoint} is issued on the source database")
					}
				case "INSERT", "UPDATE", "DELETE", "REPLACE", "CREATE", "DROP", "ALTER":
					okT := len(dyn) == 0
					tables := 0
					for _, w := range reWord.FindAllString(text, -1) {
						lw := strings.ToLower(w)
						if strings.HasPrefix(lw, "_litestream_") {
							tables++
							if lw != "_litestream_seq" && lw != "_litestream_lock" {
								okT = false
							}
						}
					}
					// the statement's target table is the first identifier after INTO / TABLE [IF NOT EXISTS] / UPDATE / FROM
					tgt := sqlTarget(text)
					okT = okT && tables >= 1 && (tgt == "_litestream_seq" || tgt == "_litestream_lock")
					c.check(okT, rule, construct+" [write to litestream's own table "+tgt+"]", c.pos(call), "constant statement on _litestream_seq/_litestream_lock", "a write statement on the source database targets a table other than litestream's two bookkeeping tables, or is not constant")
				default:
					c.fail(rule, construct, c.pos(call), "statement class "+kw+" is not allowed on the source database (VACUUM/REINDEX/ATTACH/... or unparsable)")
				}
			}
		}
		c.floor(rule, nSrc, 6, "SQL statements on the source handle")
		c.floor(rule, nOther, 2, "SQL statements on restore outputs")
	}

	// R2 no Commit; every source tx rolled back
	{
		const rule = "R2-lock-row-never-persists"
		nCommit, nRollback := 0, 0
		for _, fn := range c.P.ProdFuncs() {
			for _, call := range calls(fn) {
				switch calleeName(call) {
				case "(*database/sql.Tx).Commit":
					nCommit++
					c.fail(rule, fnName(fn)+": (*sql.Tx).Commit", c.pos(call), "production code commits a transaction (litestream's transactions on the source must always roll back)")
				case "(*database/sql.Tx).Rollback":
					nRollback++
				}
			}
		}
		c.check(nCommit == 0 && nRollback >= 1, rule, "no (*sql.Tx).Commit in production code (matcher self-check: Rollback sites found)", "", fmt.Sprintf("0 Commit, %d Rollback", nRollback), "Commit present or the method matcher matched nothing")
		nB := 0
		for _, fn := range c.P.ProdFuncs() {
			for _, b := range callsTo(fn, nameIs("(*database/sql.DB).BeginTx", "(*database/sql.DB).Begin")) {
				if !isSrc(b.Common().Args[0]) {
					continue
				}
				nB++
				tx := resultOf(b, 0)
				isTx := func(v ssa.Value) bool {
					if v == tx {
						return true
					}
					for _, o := range origins(v) {
						if o == tx {
							return true
						}
					}
					return false
				}
				avoid := map[*ssa.BasicBlock]bool{}
				kinds := []string{}
				for _, blk := range fn.Blocks {
					for _, in := range blk.Instrs {
						switch x := in.(type) {
						case *ssa.Defer:
							if mc, ok := x.Call.Value.(*ssa.MakeClosure); ok {
								for _, rc := range callsTo(mc.Fn.(*ssa.Function), nameIs("ls.rollback", "(*database/sql.Tx).Rollback")) {
									if isTx(rc.Common().Args[0]) {
										avoid[blk] = true
										kinds = append(kinds, "deferred rollback")
									}
								}
							}
							if n := calleeName(x); (n == "ls.rollback" || n == "(*database/sql.Tx).Rollback") && isTx(x.Call.Args[0]) {
								avoid[blk] = true
								kinds = append(kinds, "deferred rollback")
							}
						case *ssa.Call:
							if n := calleeName(x); (n == "ls.rollback" || n == "(*database/sql.Tx).Rollback") && isTx(x.Call.Args[0]) {
								avoid[blk] = true
								kinds = append(kinds, "explicit rollback")
							}
						case *ssa.Store:
							if fa, ok := x.Addr.(*ssa.FieldAddr); ok && fieldAddrName(fa) == "DB.rtx" && isTx(x.Val) {
								avoid[blk] = true
								kinds = append(kinds, "becomes the tracked read transaction db.rtx")
							}
						}
					}
				}
				bad := false
				for _, e := range nilEdges(fn, b) {
					r := reachableAvoiding(fn, e.From.Succs[e.Succ], nil, avoid)
					for _, ret := range returns(fn) {
						if r[ret.Block()] {
							bad = true
						}
					}
				}
				c.check(!bad && len(kinds) > 0, rule, fnName(fn)+": transaction begun on the source is rolled back (or tracked) on every path", c.pos(b), strings.Join(uniq(kinds), ", "), "a path from a successful BeginTx reaches a return without rolling the transaction back: the _litestream_lock row / the write lock could persist")
			}
		}
		c.floor(rule, nB, 3, "transactions begun on the source")
		// the tracked read tx is rolled back by releaseReadLock, which Close always reaches (C12-R5)
		if rl := c.fn(rule, "(*ls.DB).releaseReadLock"); rl != nil {
			ok := false
			for _, call := range callsTo(rl, nameIs("ls.rollback")) {
				if vFieldLoad("DB.rtx", nil)(call.Common().Args[0]) {
					ok = true
				}
			}
			c.check(ok, rule, fnName(rl)+": rolls back db.rtx", c.P.Pos(rl.Pos()), "rollback(db.rtx)", "the long-lived read transaction is not rolled back on release")
		}
	}

	// R3 DB.f read-only; nothing targets DB.path
	{
		const rule = "R3-source-file-read-only"
		nSt := 0
		nOpen := 0
		for _, fn := range c.P.ProdFuncs() {
			for _, st := range storesToField(fn, "DB.f") {
				if st.Block().Parent() != fn {
					continue
				}
				nSt++
				c.check(isNilConst(st.Val) || vResult(nameIs("os.Open"), 0)(st.Val), rule, fnName(fn)+": db.f = os.Open(...) | nil", c.pos(st), "read-only handle", "the long-running database file handle is not opened read-only")
			}
			for _, call := range calls(fn) {
				rv := recvOf(call)
				if rv != nil && vFieldLoad("DB.f", nil)(rv) {
					m := methodName(call)
					okM := map[string]bool{"Stat": true, "ReadAt": true, "Seek": true, "Close": true, "Read": true, "Name": true, "Fd": true}[m]
					c.check(okM, rule, fnName(fn)+": method "+m+" on db.f", c.pos(call), "non-writing method", "a write-class method is applied to the source database file handle")
					continue
				}
				for i, a := range call.Common().Args {
					if vFieldLoad("DB.f", nil)(a) && rv == nil {
						okA := calleeName(call) == "io.Copy" && i == 1
						c.check(okA, rule, fnName(fn)+": db.f passed to "+calleeName(call), c.pos(call), "as a reader", "the source database file handle is passed where it could be written")
					}
				}
				// one descriptor: every further open()+close() of the database file inside this
				// process drops the fcntl locks its SQLite connections hold (POSIX lock semantics)
				if nm := calleeName(call); nm == "os.Open" || nm == "os.OpenFile" {
					if p := call.Common().Args[0]; isSourcePathExact(p) {
						nOpen++
						stored := false
						for _, st := range storesToField(fn, "DB.f") {
							if v := call.Value(); v != nil && vIs(resultOf(call, 0))(st.Val) {
								stored = true
							}
						}
						c.check(stored, rule, fnName(fn)+": "+nm+"(source database path) is the long-lived db.f handle", c.pos(call), "result stored in DB.f",
							"a second descriptor is opened on the source database: closing it releases the POSIX locks held by litestream's SQLite connections, so another process can checkpoint past the read mark and unlink the WAL under litestream")
					}
				}
				// path-level mutators on paths derived from DB.path
				var path ssa.Value
				switch calleeName(call) {
				case "os.Remove", "os.RemoveAll", "os.Truncate", "os.WriteFile", "os.Chmod":
					path = call.Common().Args[0]
				case "os.Rename":
					path = call.Common().Args[1]
				default:
					if p, creates, ok := openerInfo(call); ok && creates && p != nil {
						path = p
					}
				}
				if path != nil && derivesFromSourcePath(path) {
					c.fail(rule, fnName(fn)+": "+calleeName(call)+" on a path derived from the source database path", c.pos(call), "the source database (or its -wal/-shm) is created, removed, renamed or truncated by litestream")
				}
			}
		}
		c.floor(rule, nSt, 2, "assignments to DB.f")
		c.floor(rule, nOpen, 1, "opens of the source database path")
		c.ok(rule, "no production call creates/removes/renames/truncates a path derived from DB.path", "", "scanned every production call site")
	}

	// R4 WAL mode + DSN
	if fn := c.fn("R4-wal-mode", "(*ls.DB).init"); fn != nil {
		const rule = "R4-wal-mode"
		var modeCell ssa.Value
		for _, call := range callsTo(fn, nameIs("(*database/sql.Row).Scan")) {
			qr := call.Common().Args[0]
			for _, o := range origins(qr) {
				if q, ok := o.(*ssa.Call); ok {
					if len(q.Call.Args) < 3 {
						continue
					}
					if s, ok := constString(q.Call.Args[2]); ok && strings.Contains(strings.ToLower(s), "journal_mode") {
						for _, e := range variadicElems(call.(*ssa.Call)) {
							for _, oo := range origins(e) {
								if al, ok := oo.(*ssa.Alloc); ok {
									modeCell = al
								}
							}
						}
					}
				}
			}
		}
		if modeCell == nil {
			c.fail(rule, fnName(fn)+": journal_mode result is scanned into a variable", c.P.Pos(fn.Pos()), "not found")
		} else {
			isMode := func(v ssa.Value) bool {
				u, ok := v.(*ssa.UnOp)
				return ok && u.Op == token.MUL && u.X == modeCell
			}
			for _, ret := range successReturns(fn) {
				// returns before the database is opened (already initialised / no file) are exempt
				if g, n := guardedBy(ret, cmpFact(vFieldLoad("DB.db", nil), token.NEQ, vNil(), "")); n > 0 && g {
					continue
				}
				if !reachableFromCall(fn, "database/sql.Open", ret) {
					continue
				}
				c.requireGuard(rule, fn, Site{ret, "success return"}, cmpFact(isMode, token.EQL, vConstStr("wal"), "mode == \"wal\""))
			}
		}
		okDSN := false
		for _, call := range callsTo(fn, nameIs("fmt.Sprintf")) {
			if s, ok := constString(call.Common().Args[0]); ok && strings.Contains(s, "_pragma=wal_autocheckpoint(0)") && strings.Contains(s, "_pragma=busy_timeout(") {
				okDSN = true
			}
		}
		c.check(okDSN, rule, fnName(fn)+": DSN sets wal_autocheckpoint(0) and a busy timeout", c.P.Pos(fn.Pos()), "constant DSN format", "litestream's own connection could auto-checkpoint the source (frames would be lost to replication)")
	}
}

func reachableFromCall(fn *ssa.Function, callee string, at ssa.Instruction) bool {
	for _, call := range callsTo(fn, nameIs(callee)) {
		if reachable(fn, call.Block(), nil)[at.Block()] {
			return true
		}
	}
	return false
}

func uniq(a []string) []string {
	seen := map[string]bool{}
	var out []string
	for _, s := range a {
		if !seen[s] {
			seen[s] = true
			out = append(out, s)
		}
	}
	return out
}

func abbreviate(s string) string {
	s = strings.Join(strings.Fields(s), " ")
	if len(s) > 70 {
		return s[:67] + "..."
	}
	return s
}

// sqlTarget extracts the target table of a write statement.
func sqlTarget(text string) string {
	ws := reWord.FindAllString(text, -1)
	for i, w := range ws {
		switch strings.ToUpper(w) {
		case "INTO", "UPDATE", "FROM":
			if i+1 < len(ws) {
				return strings.ToLower(ws[i+1])
			}
		case "TABLE", "INDEX":
			j := i + 1
			for j < len(ws) && (strings.EqualFold(ws[j], "IF") || strings.EqualFold(ws[j], "NOT") || strings.EqualFold(ws[j], "EXISTS")) {
				j++
			}
			if j < len(ws) {
				return strings.ToLower(ws[j])
			}
		}
	}
	return ""
}

// checkpointModeProvenance: v is one of the mode constants, or a parameter fed
// only by such values, or the `mode` parameter of the exported DB.Checkpoint.
func checkpointModeProvenance(c *Ctx, v ssa.Value, depth int) bool {
	if depth > 5 {
		return false
	}
	for _, o := range origins(v) {
		switch x := o.(type) {
		case *ssa.Const:
			s, ok := constString(x)
			if !ok || !(s == "PASSIVE" || s == "FULL" || s == "RESTART" || s == "TRUNCATE") {
				return false
			}
		case *ssa.Parameter:
			fn := x.Parent()
			if fnName(fn) == "(*ls.DB).Checkpoint" {
				continue // exported API: the caller chooses the mode
			}
			idx := -1
			for i, q := range fn.Params {
				if q == x {
					idx = i
				}
			}
			n := 0
			for _, g := range c.P.ProdFuncs() {
				for _, call := range calls(g) {
					if call.Common().StaticCallee() != fn {
						continue
					}
					n++
					if idx >= len(call.Common().Args) || !checkpointModeProvenance(c, call.Common().Args[idx], depth+1) {
						return false
					}
				}
			}
			if n == 0 {
				// an unexported function without production callers is dead in production (test-only wrapper)
				if fn.Object() != nil && fn.Object().Exported() {
					return false
				}
			}
		default:
			return false
		}
	}
	return true
}

func derivesFromSourcePath(v ssa.Value) bool {
	seen := map[ssa.Value]bool{}
	var w func(v ssa.Value, d int) bool
	w = func(v ssa.Value, d int) bool {
		if v == nil || seen[v] || d > 8 {
			return false
		}
		seen[v] = true
		for _, o := range origins(v) {
			switch x := o.(type) {
			case *ssa.UnOp:
				if fa, ok := x.X.(*ssa.FieldAddr); ok && fieldAddrName(fa) == "DB.path" {
					return true
				}
			case *ssa.Call:
				switch calleeName(x) {
				case "(*ls.DB).Path", "(*ls.DB).WALPath":
					return true
				case "path/filepath.Join", "path/filepath.Dir":
					// Dir(db.path) is the parent directory, not the database
				}
			case *ssa.BinOp:
				if x.Op == token.ADD && (w(x.X, d+1) || w(x.Y, d+1)) {
					return true
				}
			}
		}
		return false
	}
	return w(v, 0)
}

// isSourcePathExact: v is the source database path itself (db.path / db.Path()),
// not a path built from it (-wal, -shm, meta directory).
func isSourcePathExact(v ssa.Value) bool {
	os := origins(v)
	if len(os) == 0 {
		return false
	}
	for _, o := range os {
		switch x := o.(type) {
		case *ssa.UnOp:
			fa, ok := x.X.(*ssa.FieldAddr)
			if !ok || fieldAddrName(fa) != "DB.path" {
				return false
			}
		case *ssa.Call:
			if calleeName(x) != "(*ls.DB).Path" {
				return false
			}
		default:
			return false
		}
	}
	return true
}

// c14Probe (R5): the directory watcher probes a file's header by opening and closing
// it.  On a database litestream already replicates, that close drops the POSIX
// locks of litestream's own SQLite connections (same hazard as R3's single
// descriptor), so the probe may run only for paths that are not tracked yet.
func c14Probe(c *Ctx) {
	const rule = "R5-header-probe-only-for-untracked-paths"
	fn := c.fn(rule, "(*ls/cmd/litestream.DirectoryMonitor).handlePotentialDatabase")
	if fn == nil {
		return
	}
	tracked := truthFact(func(v ssa.Value) bool {
		ex, ok := v.(*ssa.Extract)
		if !ok || ex.Index != 1 {
			return false
		}
		lk, ok := ex.Tuple.(*ssa.Lookup)
		return ok && lk.CommaOk && vFieldLoad("DirectoryMonitor.dbs", nil)(lk.X)
	}, false, "path not in dm.dbs")
	n := 0
	for _, vs := range callSitesV(fn, nameIs("ls/cmd/litestream.IsSQLiteDatabase")) {
		n++
		vs.Desc = "IsSQLiteDatabase(path) (open+close of the file)"
		c.requireGuardV(rule, fn, vs, tracked)
	}
	c.floor(rule, n, 1, "header probes in handlePotentialDatabase")
}

// c14OutputUnlink: a restore unlinks the output path (or its sidecars) only after it has
// itself renamed the restored database onto it.  Before that point whatever is at the
// path does not belong to litestream: Restore refuses to run when something exists there,
// and what appears afterwards is the application's (a database created while the restore
// was talking to the replica).
func c14OutputUnlink(c *Ctx, name string) {
	const rule = "R6-output-unlinked-only-after-own-publication"
	fn := c.fn(rule, name)
	if fn == nil {
		return
	}
	var isOut func(v ssa.Value, d int) bool
	isOut = func(v ssa.Value, d int) bool {
		if v == nil || d > 4 {
			return false
		}
		if vFieldLoad("RestoreOptions.OutputPath", nil)(v) {
			return true
		}
		for _, o := range origins(v) {
			if b, ok := o.(*ssa.BinOp); ok && b.Op == token.ADD {
				// opt.OutputPath + "-wal" is a sidecar of the output; + ".tmp" is the staging file
				if sfx, isK := constString(b.Y); isK && strings.Contains(sfx, "tmp") {
					continue
				}
				if isOut(b.X, d+1) {
					return true
				}
			}
		}
		return false
	}
	var starts []*ssa.BasicBlock
	for _, ren := range callsTo(fn, nameIs("os.Rename")) {
		if len(ren.Common().Args) == 2 && isOut(ren.Common().Args[1], 0) {
			for _, e := range nilEdges(fn, ren) {
				starts = append(starts, e.From.Succs[e.Succ])
			}
		}
	}
	c.floor(rule, len(starts), 1, "rename onto opt.OutputPath in "+name)
	after := func(site ssa.Instruction) bool {
		if site == nil || site.Parent() != fn {
			return false
		}
		for _, s := range starts {
			if s == site.Block() || s.Dominates(site.Block()) {
				return true
			}
		}
		return false
	}
	n := 0
	isRm := nameIs("os.Remove", "os.RemoveAll")
	for _, vs := range callSitesV(fn, isRm) {
		k := vs.Call()
		if len(k.Common().Args) != 1 || !isOut(resolveThroughCtx(k.Common().Args[0], vs.Ctx), 0) {
			continue
		}
		n++
		c.check(after(vs.At()), rule, fnName(fn)+": the output path is unlinked only after this restore renamed its own file onto it", c.pos(k),
			"dominated by the success edge of the rename", "the output path can be unlinked on a path where this restore has not published anything there: a database the application created in the meantime is deleted")
	}
	// closures (deferred cleanups): they run wherever the function returns after their creation
	for _, g := range withClosures(fn)[1:] {
		for _, k := range callsTo(g, isRm) {
			if len(k.Common().Args) != 1 || !isOut(k.Common().Args[0], 0) {
				continue
			}
			n++
			c.check(after(liftTo(fn, k)), rule, fnName(fn)+": the output path is unlinked only after this restore renamed its own file onto it", c.pos(k),
				"the closure is created after the success edge of the rename", "a cleanup closure created before the rename unlinks the output path on failure paths where this restore has not published anything there: a database the application created in the meantime is deleted")
		}
	}
	c.floor(rule, n, 1, "unlinks of the output path in "+name)
}
