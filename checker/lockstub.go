package main

func c02Locks(c *Ctx) { lockRulesC02(c) }
