package main

import (
	"fmt"
	"go/token"
	"go/types"
	"golang.org/x/tools/go/ssa"
	"strings"
)

// C01 — an acknowledged sync restores to exactly the source database.

func init() {
	register(&PropSpec{
		ID:  "C01",
		Run: runC01,
		Explanation: "The acknowledgement skeleton: an acknowledgement (SyncAndWait, Store.SyncDB, the sync HTTP handler, a clean Close) can only be produced after every stage returned nil, and no stage error is dropped. " +
			"Decided by a path-sensitive fail-stop walk (nil-ness facts over SSA values and result/field cells) for every error-returning call in the cone of the acknowledgement entry points, " +
			"plus value provenance of the LTX header/page copy loops and the ordering skeleton of the checkpoint protocol. R9: a sync bounded by MaxSyncWALBytes is issued only from the catch-up loop of DB.Sync; every other caller (Close's final sync, checkpoints) passes 0 or forwards its own bound.",
		NotDecided:  "page-level byte equality; correctness of the WAL-continuity decision (C04); SQLite semantics",
		Assumptions: []string{"SQLite WAL semantics; ltx v0.5.2 encoder/decoder"},
	})
}

var corePkgs = map[string]bool{"": true, "file": true, "internal": true}

func c01Config() *EFConfig {
	return &EFConfig{
		Rule:       "R6-errflow-ack-cone",
		Roots:      []string{"(*ls.DB).SyncAndWait", "(*ls.DB).Sync", "(*ls.Replica).Sync", "(*ls.DB).Close", "(*ls.Store).SyncDB", "(*ls.Store).Close", "(*ls/file.ReplicaClient).WriteLTXFile"},
		Pkgs:       corePkgs,
		Retry:      map[string]bool{"(*ls.DB).syncReplicaWithRetry|(*ls.Replica).Sync": true},
		Skip:       map[string]string{"ls/internal.MkdirAll": "verbatim copy of os.MkdirAll (stat/mkdir/lstat races resolved as in the standard library)"},
		Exceptions: ackExceptions,
	}
}

func runC01(c *Ctx) {
	errflowCone(c, c01Config())
	ltxHeaderRules(c)
	syncResultRules(c)
	pageCopyRules(c, "R7-lock-page", false)
	checkpointProtocolRules(c)
	// the continuity decision's necessary conditions (shared with C04)
	c04DefaultDeny(c)
	c04Helpers(c)
	c04SessionState(c)
	c01PosCacheAtomic(c, "R10-position-cache-atomic")
	c01Ack(c)
	c01Bound(c)
}

// c01Bound (R9): a sync bounded by MaxSyncWALBytes copies one chunk and reports
// `limited`; only the catch-up loop of DB.Sync may pass a bound.  Every other
// caller (Close's final sync, checkpoints) acknowledges after a single call
// and must therefore sync without a bound (0) or forward its own parameter.
func c01Bound(c *Ctx) {
	const rule = "R9-bounded-sync-is-looped"
	n := 0
	for _, fn := range c.P.ProdFuncs() {
		for _, call := range calls(fn) {
			callee := call.Common().StaticCallee()
			i := refParamIndex(callee, "maxSyncWALBytes")
			if i < 0 || i >= len(call.Common().Args) || !c.P.InP(callee) {
				continue
			}
			n++
			a := call.Common().Args[i]
			construct := fmt.Sprintf("%s -> %s: chunk bound", fnName(fn), calleeName(call))
			if k, ok := constInt(a); ok && k == 0 {
				c.ok(rule, construct, c.pos(call), "unbounded (0)")
				continue
			}
			fwd := false
			for _, o := range origins(a) {
				if p, ok := o.(*ssa.Parameter); ok && p.Parent() == fn && refParamName(p) == "maxSyncWALBytes" {
					fwd = true
				}
			}
			if fwd && len(origins(a)) <= 2 {
				c.ok(rule, construct, c.pos(call), "forwards the caller's own bound")
				continue
			}
			root := fn
			for root.Parent() != nil {
				root = root.Parent()
			}
			inLoop := innermostLoopOf(naturalLoops(fn), call.Block()) != nil
			c.check(fnName(root) == "(*ls.DB).Sync" && inLoop, rule, construct, c.pos(call), "the catch-up loop of DB.Sync (C13-R4 checks that it continues while chunks are limited)",
				"a bounded sync outside the catch-up loop returns after one chunk: the caller acknowledges although committed WAL frames beyond the bound were not copied")
		}
	}
	c.floor(rule, n, 4, "calls passing a sync chunk bound")
}

// ackExceptions: the frozen table of deliberate tolerances on acknowledgement
// paths (each confirmed by reading the code).
var ackExceptions = []EFException{
	{Fn: "(*ls.DB).Close", Callee: "(*ls.Replica).Stop", DroppedOnly: true, Reason: "Stop(hard) only closes the replica's read handle after the final sync; its error cannot affect replicated data"},
	{Fn: "(*ls.Replica).Start", Callee: "(*ls.Replica).Stop", DroppedOnly: true, Reason: "Stop(false) never closes anything and returns nil"},
	{Fn: "*", Callee: "ltx.ParseFilename", Reason: "listings skip names that do not parse as LTX files (C03-R3 checks the skip from the other side)"},
	{Fn: "(*ls.DB).checkpointIfNeeded", Callee: "(*ls.DB).checkpointWithExecutor", Tolerate: []string{"ls.isSQLiteBusyError"}, Reason: "a PASSIVE checkpoint that finds the database busy is skipped; the WAL copy it belongs to already completed"},
	{Fn: "(*ls.DB).ensureWALExists", Callee: "os.Stat", Reason: "a failed stat falls through to creating the WAL by bumping the sequence row (whose error is returned)"},
	{Fn: "(*ls.DB).lastPageMatch", Callee: "(*ltx.Decoder).DecodePage", Tolerate: []string{"errors.Is:io.EOF"}, Reason: "EOF ends the page scan: 'not found' forces a snapshot (conservative)"},
	{Fn: "(*ls.DB).sync", Callee: "(*ls.DB).walFileSize", Reason: "on failure syncedToWALEnd is set false, the conservative value (forces a snapshot after a truncation)"},
	{Fn: "(*ls.DB).sync", Callee: "ls.NewWALReaderWithOffset", Tolerate: []string{"errors.As"}, Reason: "a previous-frame mismatch falls back to reading the WAL from its header"},
	{Fn: "(*ls.DB).syncLocked", Callee: "os.Stat", Reason: "metrics only (database size gauge)"},
	{Fn: "(*ls.WALReader).FrameSaltsUntil", Callee: "iface:io.ReaderAt.ReadAt", Reason: "a short read is the end of the WAL; other errors are returned"},
	{Fn: "(*ls.WALReader).pageMap", Callee: "(*ls.WALReader).ReadFrame", Tolerate: []string{"errors.Is:io.EOF"}, Reason: "EOF is the end of the valid WAL (C09-R3 checks that nothing is read after it)"},
	{Fn: "ls.rollback", Callee: "(*database/sql.Tx).Rollback", Reason: "only 'already rolled back' is suppressed (string match on the driver's message)"},
}

// c01Ack: explicit acknowledgement entry points (R1-R4).
func c01Ack(c *Ctx) {
	const rule = "R1-ack-entry-points"
	if fn := c.fn(rule, "(*ls.DB).SyncAndWait"); fn != nil {
		ds := callsTo(fn, nameIs("(*ls.DB).Sync"))
		rs := callsTo(fn, nameIs("(*ls.Replica).Sync"))
		c.floor(rule, len(ds), 1, "DB.Sync in SyncAndWait")
		c.floor(rule, len(rs), 1, "Replica.Sync in SyncAndWait")
		for _, d := range ds {
			for _, r := range rs {
				c.check(dominates(d, r), rule, fnName(fn)+": DB.Sync precedes Replica.Sync", c.pos(r), "ordered", "upload before the WAL copy")
			}
		}
		for _, call := range append(ds, rs...) {
			okF, why := failStopOK(fn, call)
			c.check(okF, rule, fnName(fn)+": "+calleeName(call)+" failure is returned", c.pos(call), "fail-stop", why)
		}
	}
	if fn := c.fn(rule, "(*ls.Store).SyncDB"); fn != nil {
		for _, call := range callsTo(fn, nameIs("(*ls.DB).SyncAndWait", "(*ls.DB).Sync")) {
			okF, why := failStopOK(fn, call)
			c.check(okF, rule, fnName(fn)+": "+calleeName(call)+" failure is returned", c.pos(call), "fail-stop", why)
		}
		for _, call := range callsTo(fn, nameIs("(*ls.DB).SyncAndWait")) {
			c.requireGuard(rule, fn, Site{call, "SyncAndWait"}, truthFact(vParam("wait"), true, "wait"))
		}
		// must-run: with wait=true a success is reported only after the replica was
		// synced, whether or not this request itself produced a new transaction (the
		// monitor may already have turned the WAL into a local file that is not uploaded yet)
		ups := callSitesV(fn, nameIs("(*ls.DB).SyncAndWait", "(*ls.Replica).Sync"))
		c.floor(rule, len(ups), 1, "replica synchronisation in Store.SyncDB")
		avoid := map[*ssa.BasicBlock]bool{}
		for _, u := range ups {
			avoid[u.At().Block()] = true
		}
		noWait := factEdges(fn, truthFact(vParam("wait"), false, "!wait"))
		r := reachableAvoiding(fn, nil, noWait, avoid)
		bad := len(noWait) == 0
		for _, ret := range successReturns(fn) {
			if r[ret.Block()] && !avoid[ret.Block()] {
				bad = true
			}
		}
		c.check(!bad, rule, fnName(fn)+": with wait=true every success return follows a replica synchronisation", c.P.Pos(fn.Pos()), "no success return bypasses SyncAndWait/Replica.Sync unless wait is false",
			"a `sync -wait` request can be acknowledged without the replica having been synchronised (e.g. when this request found nothing new to copy although an earlier local file is not uploaded yet)")
	}
	// HTTP handler: 200 only after SyncDB succeeded
	for _, fn := range c.P.ProdFuncs() {
		if len(callsTo(fn, nameIs("(*ls.Store).SyncDB"))) == 0 {
			continue
		}
		for _, sd := range callsTo(fn, nameIs("(*ls.Store).SyncDB")) {
			if errResultIndex(fn.Signature) >= 0 {
				okF, why := failStopOK(fn, sd)
				c.check(okF, rule, fnName(fn)+": SyncDB failure is returned", c.pos(sd), "fail-stop", why)
				continue
			}
			// handler without error result: every 200 response / success JSON is cut by the nil edge
			n := 0
			for _, call := range calls(fn) {
				nm := calleeName(call)
				if nm == "ls.writeJSON" || nm == "(*ls.Server).writeJSON" || strings.HasSuffix(nm, ".writeJSON") {
					if len(call.Common().Args) >= 2 && vConstInt(200)(call.Common().Args[len(call.Common().Args)-2]) {
						n++
						if !reachable(fn, sd.Block(), nil)[call.Block()] {
							continue
						}
						c.requireGuard(rule, fn, Site{call, "200 OK response"}, cmpFact(vIs(resultOf(sd, 1)), token.EQL, vNil(), "SyncDB err == nil"))
					}
				}
			}
			c.touch(fn)
			_ = n
		}
	}
	// Store.Close returns the first non-interrupt error of any DB.Close: covered by the cone walk
}

// c01PosCacheAtomic: (*DB).Pos recomputes the position from the local LTX directory when
// the cache was invalidated and stores it back.  The miss test and the fill are one critical
// section of the cache's mutex: a recompute that runs unlocked can finish after a concurrent
// sync published the next TXID and put the older position back (the next sync then rewrites
// an L0 file that is already on the replica, and the replica never sees the new content).
func c01PosCacheAtomic(c *Ctx, rule string) {
	fn := c.fn(rule, "(*ls.DB).Pos")
	if fn == nil {
		return
	}
	isVal := func(in ssa.Instruction) (*ssa.FieldAddr, bool) {
		var addr ssa.Value
		switch x := in.(type) {
		case *ssa.Store:
			addr = x.Addr
		case *ssa.UnOp:
			if x.Op == token.MUL {
				addr = x.X
			}
		}
		fa, ok := addr.(*ssa.FieldAddr)
		if !ok {
			return nil, false
		}
		base, ok := fa.X.(*ssa.FieldAddr)
		if !ok || fieldAddrName(base) != "DB.pos" {
			return nil, false
		}
		if st, isSt := deref(base.Type()).Underlying().(*types.Struct); !isSt || st.Field(fa.Field).Name() != "value" {
			return nil, false
		}
		return fa, true
	}
	var loads, fills []ssa.Instruction
	for _, b := range fn.Blocks {
		for _, in := range b.Instrs {
			if _, ok := isVal(in); !ok {
				continue
			}
			if _, isSt := in.(*ssa.Store); isSt {
				fills = append(fills, in)
			} else {
				loads = append(loads, in)
			}
		}
	}
	c.floor(rule, len(loads), 1, "reads of the cached position in DB.Pos")
	c.floor(rule, len(fills), 1, "fills of the cached position in DB.Pos")
	for _, f := range fills {
		ok := false
		for _, l := range loads {
			if dominates(l, f) && !releaseBetween(fn, l, f, "DB.pos.Mutex") {
				ok = true
			}
		}
		c.check(ok, rule, fnName(fn)+": the miss and the fill of the position cache happen in one critical section", c.pos(f), "no Unlock of DB.pos between the miss and the fill",
			"the position cache is filled in another critical section than the one that saw it empty: a recompute that started before a concurrent sync can overwrite the newer position")
	}
}
