package main

// C01 — an acknowledged sync restores to exactly the source database.

func init() {
	register(&PropSpec{
		ID:  "C01",
		Run: runC01,
		Explanation: "The acknowledgement skeleton: an acknowledgement (SyncAndWait, Store.SyncDB, the sync HTTP handler, a clean Close) can only be produced after every stage returned nil, and no stage error is dropped. " +
			"Decided by a path-sensitive fail-stop walk (nil-ness facts over SSA values and result/field cells) for every error-returning call in the cone of the acknowledgement entry points, " +
			"plus value provenance of the LTX header/page copy loops and the ordering skeleton of the checkpoint protocol.",
		NotDecided:  "page-level byte equality; correctness of the WAL-continuity decision (C04); SQLite semantics",
		Assumptions: []string{"SQLite WAL semantics; ltx v0.5.2 encoder/decoder"},
	})
}

var corePkgs = map[string]bool{"": true, "file": true, "internal": true}

func c01Config() *EFConfig {
	return &EFConfig{
		Rule:  "R6-errflow-ack-cone",
		Roots: []string{"(*ls.DB).SyncAndWait", "(*ls.DB).Sync", "(*ls.Replica).Sync", "(*ls.DB).Close", "(*ls.Store).SyncDB", "(*ls.Store).Close", "(*ls/file.ReplicaClient).WriteLTXFile"},
		Pkgs:  corePkgs,
		Retry: map[string]bool{"(*ls.DB).syncReplicaWithRetry|(*ls.Replica).Sync": true},
		Skip:  map[string]string{"ls/internal.MkdirAll": "verbatim copy of os.MkdirAll (stat/mkdir/lstat races resolved as in the standard library)"},
		Exceptions: ackExceptions,
	}
}

func runC01(c *Ctx) {
	errflowCone(c, c01Config())
	ltxHeaderRules(c)
	syncResultRules(c)
	pageCopyRules(c, "R7-lock-page", false)
}

// ackExceptions: the frozen table of deliberate tolerances on acknowledgement
// paths (each confirmed by reading the code).
var ackExceptions = []EFException{
	{Fn: "(*ls.DB).Close", Callee: "(*ls.Replica).Stop", DroppedOnly: true, Reason: "Stop(hard) only closes the replica's read handle after the final sync; its error cannot affect replicated data"},
	{Fn: "(*ls.Replica).Start", Callee: "(*ls.Replica).Stop", DroppedOnly: true, Reason: "Stop(false) never closes anything and returns nil"},
	{Fn: "*", Callee: "ltx.ParseFilename", Reason: "listings skip names that do not parse as LTX files (C03-R3 checks the skip from the other side)"},
	{Fn: "(*ls.DB).checkpointIfNeeded", Callee: "(*ls.DB).checkpointWithExecutor", Tolerate: []string{"ls.isSQLiteBusyError"}, Reason: "a PASSIVE checkpoint that finds the database busy is skipped; the WAL copy it belongs to already completed"},
	{Fn: "(*ls.DB).ensureWALExists", Callee: "os.Stat", Reason: "a failed stat falls through to creating the WAL by bumping the sequence row (whose error is returned)"},
	{Fn: "(*ls.DB).lastPageMatch", Callee: "(*ltx.Decoder).DecodePage", Tolerate: []string{"errors.Is:io.EOF"}, Reason: "EOF ends the page scan: 'not found' forces a snapshot (conservative)"},
	{Fn: "(*ls.DB).sync", Callee: "(*ls.DB).walFileSize", Reason: "on failure syncedToWALEnd is set false, the conservative value (forces a snapshot after a truncation)"},
	{Fn: "(*ls.DB).sync", Callee: "ls.NewWALReaderWithOffset", Tolerate: []string{"errors.As"}, Reason: "a previous-frame mismatch falls back to reading the WAL from its header"},
	{Fn: "(*ls.DB).syncLocked", Callee: "os.Stat", Reason: "metrics only (database size gauge)"},
	{Fn: "(*ls.WALReader).FrameSaltsUntil", Callee: "iface:io.ReaderAt.ReadAt", Reason: "a short read is the end of the WAL; other errors are returned"},
	{Fn: "(*ls.WALReader).pageMap", Callee: "(*ls.WALReader).ReadFrame", Tolerate: []string{"errors.Is:io.EOF"}, Reason: "EOF is the end of the valid WAL (C09-R3 checks that nothing is read after it)"},
	{Fn: "ls.rollback", Callee: "(*database/sql.Tx).Rollback", Reason: "only 'already rolled back' is suppressed (string match on the driver's message)"},
}
