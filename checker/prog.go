package main

// Program loading and entity lookup.
//
// The whole of /repo (./...) is loaded from source together with its
// dependencies (packages.LoadAllSyntax) and converted to SSA form with
// generics instantiated and debug references enabled.  Nothing is executed.

import (
	"fmt"
	"go/token"
	"go/types"
	"os"
	"path/filepath"
	"sort"
	"strings"

	"golang.org/x/tools/go/packages"
	"golang.org/x/tools/go/ssa"
	"golang.org/x/tools/go/ssa/ssautil"
)

const modPath = "github.com/benbjohnson/litestream"

// LoadConfig selects one build configuration of /repo.
type LoadConfig struct {
	Dir     string            // repository root
	Tags    string            // build tags, comma separated
	GOOS    string            // "" = host
	GOARCH  string            // "" = host
	Overlay map[string][]byte // file replacements (self-test mutants)
}

func (c LoadConfig) String() string {
	goos, goarch := c.GOOS, c.GOARCH
	if goos == "" {
		goos = "linux"
	}
	if goarch == "" {
		goarch = "amd64"
	}
	return fmt.Sprintf("%s/%s tags=%q", goos, goarch, c.Tags)
}

// Prog is the analysed program.
type Prog struct {
	Cfg      LoadConfig
	Roots    []*packages.Package
	AllPkgs  int
	SSA      *ssa.Program
	Fset     *token.FileSet
	funcs    map[string]*ssa.Function // short name -> function
	allFuncs map[*ssa.Function]bool
	cg       *callGraph
	LtxVer   string
}

// production packages (scope P of DESIGN 2.1), relative to modPath.
var prodPkgs = map[string]bool{
	"": true, "file": true, "internal": true, "s3": true, "gs": true, "abs": true,
	"oss": true, "sftp": true, "nats": true, "webdav": true, "cmd/litestream": true,
}

func toolEnv() []string {
	goroot := "/opt/veriftools/go1.26.8"
	if v := os.Getenv("LSVERIFY_GOROOT"); v != "" {
		goroot = v
	}
	path := goroot + "/bin:" + os.Getenv("PATH")
	os.Setenv("PATH", path) // go/packages looks "go" up in the process PATH
	env := []string{}
	for _, kv := range os.Environ() {
		k := kv[:strings.IndexByte(kv, '=')]
		switch k {
		case "PATH", "GOTOOLCHAIN", "GOFLAGS", "GOPROXY", "GOWORK", "GOOS", "GOARCH", "CGO_ENABLED", "GOSUMDB":
			continue
		}
		env = append(env, kv)
	}
	env = append(env, "PATH="+path, "GOTOOLCHAIN=local", "GOFLAGS=-mod=mod", "GOPROXY=off", "GOWORK=off", "GOSUMDB=off")
	return env
}

// Load loads and builds the program for one configuration.
func Load(c LoadConfig) (*Prog, error) {
	env := toolEnv()
	if c.GOOS != "" {
		env = append(env, "GOOS="+c.GOOS)
	}
	if c.GOARCH != "" {
		env = append(env, "GOARCH="+c.GOARCH)
	}
	if c.GOOS != "" || c.GOARCH != "" {
		env = append(env, "CGO_ENABLED=0")
	}
	// The module's packages and superfly/ltx are loaded from source syntax;
	// all other dependencies come from export data produced by `go list
	// -export` (fast once the build cache is warm).  If that fails (e.g. no
	// usable build cache) everything is type-checked from source instead.
	load := func(mode packages.LoadMode) ([]*packages.Package, int, error) {
		cfg := &packages.Config{Mode: mode, Dir: c.Dir, Env: env, Overlay: c.Overlay}
		if c.Tags != "" {
			cfg.BuildFlags = []string{"-tags=" + c.Tags}
		}
		pkgs, err := packages.Load(cfg, "./...", "github.com/superfly/ltx")
		if err != nil {
			return nil, 0, fmt.Errorf("load %s: %w", c, err)
		}
		if len(pkgs) == 0 {
			return nil, 0, fmt.Errorf("load %s: no packages", c)
		}
		var errs []string
		n := 0
		packages.Visit(pkgs, nil, func(p *packages.Package) {
			n++
			for _, e := range p.Errors {
				errs = append(errs, fmt.Sprintf("%s: %s", p.PkgPath, e))
			}
		})
		if len(errs) > 0 {
			sort.Strings(errs)
			if len(errs) > 10 {
				errs = errs[:10]
			}
			return nil, 0, fmt.Errorf("load %s: %d package errors, first: %s", c, len(errs), strings.Join(errs, "; "))
		}
		return pkgs, n, nil
	}
	pkgs, n, err := load(packages.LoadSyntax | packages.NeedModule)
	if err != nil && os.Getenv("LSVERIFY_NO_FALLBACK") == "" {
		var err2 error
		pkgs, n, err2 = load(packages.LoadAllSyntax)
		if err2 != nil {
			return nil, fmt.Errorf("%v; fallback from source: %w", err, err2)
		}
		err = nil
	}
	if err != nil {
		return nil, err
	}
	sp, _ := ssautil.Packages(pkgs, ssa.InstantiateGenerics|ssa.GlobalDebug)
	sp.Build()
	p := &Prog{Cfg: c, Roots: pkgs, AllPkgs: n, SSA: sp, Fset: pkgs[0].Fset}
	p.allFuncs = ssautil.AllFunctions(sp)
	p.funcs = map[string]*ssa.Function{}
	for fn := range p.allFuncs {
		if fn.Synthetic != "" && fn.Syntax() == nil {
			continue
		}
		if fn.Parent() != nil {
			continue
		}
		p.funcs[shortName(fn.String())] = fn
	}
	packages.Visit(pkgs, nil, func(pk *packages.Package) {
		if pk.PkgPath == "github.com/superfly/ltx" && pk.Module != nil {
			p.LtxVer = pk.Module.Version
		}
	})
	p.resolveRenames()
	curProg = p
	refAnchors = loadAnchors()
	callSiteCache = map[*ssa.Function][]ssa.CallInstruction{}
	newFieldCache = map[string][]ssa.Value{}
	newPredCache = map[*ssa.Function]bool{}
	propagatingCache = map[*ssa.Function]map[int]bool{}
	deadCache = map[*Prog]map[*ssa.Function]bool{}
	return p, nil
}

// funcSig is the rename-stable fingerprint of a function: receiver type and signature.
func funcSig(fn *ssa.Function) string {
	recv := ""
	if r := fn.Signature.Recv(); r != nil {
		recv = shortName(r.Type().String())
	} else if fn.Pkg != nil {
		recv = "pkg:" + shortName(fn.Pkg.Pkg.Path())
	}
	// parameter and result names are not part of the fingerprint
	tuple := func(t *types.Tuple) string {
		var parts []string
		for i := 0; i < t.Len(); i++ {
			parts = append(parts, shortName(t.At(i).Type().String()))
		}
		return "(" + strings.Join(parts, ", ") + ")"
	}
	sig := "func" + tuple(fn.Signature.Params())
	if fn.Signature.Variadic() {
		sig += "..."
	}
	sig += " " + tuple(fn.Signature.Results())
	return recv + "|" + sig
}

// renamedTo maps the current short name of a renamed function to the name it
// had on the reference tree (anchors.json), so that every rule keeps working
// when an unexported function is merely renamed.  Set by resolveRenames.
var renamedTo = map[string]string{}

// Renames reports the aliases in effect (for the evidence).
func (p *Prog) Renames() map[string]string { return renamedTo }

func (p *Prog) resolveRenames() {
	renamedTo = map[string]string{}
	ref := loadAnchors()
	if len(ref) == 0 {
		return
	}
	// functions of P that exist today but were unknown on the reference tree, by fingerprint
	bySig := map[string][]*ssa.Function{}
	for name, fn := range p.funcs {
		if _, known := ref[name]; known || !p.InP(fn) {
			continue
		}
		bySig[funcSig(fn)] = append(bySig[funcSig(fn)], fn)
	}
	// reference functions that are gone today
	goneBySig := map[string][]string{}
	for name, sig := range ref {
		if _, ok := p.funcs[name]; !ok {
			goneBySig[sig] = append(goneBySig[sig], name)
		}
	}
	for sig, olds := range goneBySig {
		news := bySig[sig]
		if len(olds) != 1 || len(news) != 1 {
			continue // ambiguous or really gone: stays an unresolved anchor
		}
		newName := shortName(news[0].String())
		renamedTo[newName] = olds[0]
		p.funcs[olds[0]] = news[0]
	}
	// second pass: a reference function that is gone while exactly one new function of
	// the same package carries its simple name (a method turned into a plain function or
	// moved to another receiver, a parameter added or dropped) is the same code under a
	// new signature; parameter names then resolve by name, not by position
	byBase := map[string][]*ssa.Function{}
	for name, fn := range p.funcs {
		if _, known := ref[name]; known || !p.InP(fn) {
			continue
		}
		if _, aliased := renamedTo[name]; aliased {
			continue
		}
		byBase[pkgAndBase(name)] = append(byBase[pkgAndBase(name)], fn)
	}
	goneByBase := map[string][]string{}
	for name := range ref {
		if _, ok := p.funcs[name]; !ok {
			goneByBase[pkgAndBase(name)] = append(goneByBase[pkgAndBase(name)], name)
		}
	}
	for k, olds := range goneByBase {
		news := byBase[k]
		if k == "" || len(olds) != 1 || len(news) != 1 {
			continue
		}
		renamedTo[shortName(news[0].String())] = olds[0]
		p.funcs[olds[0]] = news[0]
	}
	// third pass: renamed *and* re-parameterised.  A reference function that is gone
	// while exactly one unmatched new function of the same package has the same result
	// types and is called from exactly the functions that used to call the old one
	refCallers := loadAnchorCallers()
	if len(refCallers) == 0 {
		return
	}
	var gone []string
	for name := range ref {
		if _, ok := p.funcs[name]; !ok && len(refCallers[name]) > 0 {
			gone = append(gone, name)
		}
	}
	if len(gone) == 0 {
		return
	}
	sort.Strings(gone)
	nowCallers := staticCallers(p)
	results := func(sig string) string {
		if i := strings.LastIndex(sig, " ("); i >= 0 {
			return sig[i:]
		}
		return sig
	}
	pkgOf := func(name string) string {
		k := pkgAndBase(name)
		if i := strings.IndexByte(k, '|'); i >= 0 {
			return k[:i]
		}
		return ""
	}
	for _, old := range gone {
		var cands []*ssa.Function
		for name, fn := range p.funcs {
			if _, known := ref[name]; known || !p.InP(fn) || fn.Parent() != nil {
				continue
			}
			if _, aliased := renamedTo[name]; aliased {
				continue
			}
			if pkgOf(name) != pkgOf(old) || results(funcSig(fn)) != results(ref[old]) {
				continue
			}
			cs := nowCallers[name]
			if len(cs) != len(refCallers[old]) {
				continue
			}
			same := true
			want := map[string]bool{}
			for _, c := range refCallers[old] {
				want[c] = true
			}
			for _, c := range cs {
				if !want[canonName(c)] {
					same = false
				}
			}
			if same {
				cands = append(cands, fn)
			}
		}
		if len(cands) == 1 {
			renamedTo[shortName(cands[0].String())] = old
			p.funcs[old] = cands[0]
		}
	}
}

// pkgAndBase splits a short function name into "pkg|simple name":
// "(*ls.DB).sync" and "ls.sync" both give "ls|sync".
func pkgAndBase(name string) string {
	if strings.ContainsAny(name, "$[") {
		return ""
	}
	s := strings.TrimPrefix(name, "(")
	s = strings.TrimPrefix(s, "*")
	i := strings.LastIndexByte(s, '.')
	if i < 0 {
		return ""
	}
	base := s[i+1:]
	rest := s[:i]
	if j := strings.IndexByte(rest, ')'); j >= 0 {
		rest = rest[:j]
	}
	// rest is "pkg.Type" or "pkg"
	pkg := rest
	if strings.HasPrefix(name, "(") {
		if j := strings.LastIndexByte(rest, '.'); j >= 0 {
			pkg = rest[:j]
		}
	}
	return pkg + "|" + base
}

// canonName applies the rename aliases to a short function name (closures keep their $N suffix).
func canonName(s string) string {
	if len(renamedTo) == 0 {
		return s
	}
	if o, ok := renamedTo[s]; ok {
		return o
	}
	if i := strings.IndexByte(s, '$'); i > 0 {
		if o, ok := renamedTo[s[:i]]; ok {
			return o + s[i:]
		}
	}
	return s
}

// shortName abbreviates the module path: "(*ls.DB).sync", "ls.CalcRestorePlan",
// "(*ls/file.ReplicaClient).WriteLTXFile", "(*ltx.Decoder).Close".
func shortName(s string) string {
	s = strings.ReplaceAll(s, modPath+"/", "ls/")
	s = strings.ReplaceAll(s, modPath, "ls")
	s = strings.ReplaceAll(s, "github.com/superfly/ltx", "ltx")
	return s
}

// Func returns the function with the given short name, or nil.
func (p *Prog) Func(name string) *ssa.Function { return p.funcs[name] }

// relPkg returns the package path relative to the module ("" for the root) and
// whether the package belongs to the module.
func relPkg(pkg *types.Package) (string, bool) {
	if pkg == nil {
		return "", false
	}
	pp := pkg.Path()
	if pp == modPath {
		return "", true
	}
	if strings.HasPrefix(pp, modPath+"/") {
		return pp[len(modPath)+1:], true
	}
	return "", false
}

// InP reports whether fn (or the function enclosing a closure) is production
// code of the module: in a production package and not declared in a _test.go file.
func (p *Prog) InP(fn *ssa.Function) bool {
	for fn.Parent() != nil {
		fn = fn.Parent()
	}
	if fn.Pkg == nil {
		// instantiated generic or wrapper: use origin
		if o := fn.Origin(); o != nil && o != fn {
			return p.InP(o)
		}
		return false
	}
	rel, ok := relPkg(fn.Pkg.Pkg)
	if !ok || !prodPkgs[rel] {
		return false
	}
	if fn.Pos().IsValid() {
		if strings.HasSuffix(p.Fset.Position(fn.Pos()).Filename, "_test.go") {
			return false
		}
	}
	return true
}

// ProdFuncs lists every production function including closures, sorted by name.
func (p *Prog) ProdFuncs() []*ssa.Function {
	var out []*ssa.Function
	for fn := range p.allFuncs {
		if fn.Blocks == nil {
			continue
		}
		if fn.Synthetic != "" && fn.Syntax() == nil {
			continue
		}
		if p.InP(fn) {
			out = append(out, fn)
		}
	}
	sort.Slice(out, func(i, j int) bool {
		if out[i].String() != out[j].String() {
			return out[i].String() < out[j].String()
		}
		return out[i].Pos() < out[j].Pos()
	})
	return out
}

// Pos renders a position relative to the repository root.
func (p *Prog) Pos(pos token.Pos) string {
	if !pos.IsValid() {
		return "-"
	}
	ps := p.Fset.Position(pos)
	f := ps.Filename
	if r, err := filepath.Rel(p.Cfg.Dir, f); err == nil && !strings.HasPrefix(r, "..") {
		f = r
	} else if i := strings.Index(f, "/pkg/mod/"); i >= 0 {
		f = f[i+len("/pkg/mod/"):]
	}
	return fmt.Sprintf("%s:%d", f, ps.Line)
}

// InstrPos returns the best available position of an instruction.
func (p *Prog) InstrPos(in ssa.Instruction) string {
	if in == nil {
		return "-"
	}
	if in.Pos().IsValid() {
		return p.Pos(in.Pos())
	}
	// fall back to operands / neighbours in the block
	if v, ok := in.(ssa.Value); ok {
		_ = v
	}
	b := in.Block()
	if b != nil {
		idx := -1
		for i, x := range b.Instrs {
			if x == in {
				idx = i
			}
		}
		for i := idx; i >= 0; i-- {
			if b.Instrs[i].Pos().IsValid() {
				return p.Pos(b.Instrs[i].Pos()) + "~"
			}
		}
		for i := idx + 1; i >= 0 && i < len(b.Instrs); i++ {
			if b.Instrs[i].Pos().IsValid() {
				return p.Pos(b.Instrs[i].Pos()) + "~"
			}
		}
	}
	if in.Parent() != nil {
		return p.Pos(in.Parent().Pos()) + "~"
	}
	return "-"
}

// withClosures returns fn and every function literal nested in it.
func withClosures(fn *ssa.Function) []*ssa.Function {
	out := []*ssa.Function{fn}
	for _, a := range fn.AnonFuncs {
		out = append(out, withClosures(a)...)
	}
	return out
}

// fnName is the short display name of a function (closures as parent$N).
func fnName(fn *ssa.Function) string {
	if fn == nil {
		return "<nil>"
	}
	return canonName(shortName(fn.String()))
}
