package main

import (
	"os"
	"runtime/pprof"
)

func init() {
	if p := os.Getenv("LSVERIFY_PROF"); p != "" {
		f, _ := os.Create(p)
		pprof.StartCPUProfile(f)
		profStop = func() { pprof.StopCPUProfile(); f.Close() }
	}
}

var profStop = func() {}
