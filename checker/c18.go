package main

// C18 — a VFS read replica serves the same pages as a full restore (structural part; build tag vfs).

import (
	"go/token"
	"strings"

	"golang.org/x/tools/go/ssa"
)

func init() {
	register(&PropSpec{
		ID:  "C18",
		Run: runC18,
		Explanation: "Structural necessary conditions (build tag vfs), decided on every path: (R1) the page index is always built from a restore plan computed by CalcRestorePlan on the file's own client (Open, SetTargetTime with the caller's timestamp forwarded unchanged, ResetTime), later plan elements override earlier ones, position and commit come from the last plan element; " +
			"(R2) a page fetch uses (Level, MinTXID, MaxTXID, Offset, Size) of the one index element looked up for pgno = off/pageSize+1; (R3) the header rewrite touches only bytes 18, 19 and 24..27 and only for the first page; " +
			"(R4) guarded-by: index/pending/position/commit fields of VFSFile are accessed under VFSFile.mu, Hydrator.txid/err under Hydrator.mu; (R5) a pending index replacement (shrink seen while a reader holds a lock) is cleared only when no reader holds a lock or when Unlock applied it; " +
			"(R6) polling applies only contiguous files per level and flags a replacement when the committed size shrinks; hydration catch-up applies every level-0 file up to and including the target TXID and advances its TXID only after a successful apply.",
		NotDecided:  "the differential against a full restore (page bytes, file size at run time); observation O1: FileSize derives from the largest indexed page, not from the commit record",
		Assumptions: []string{"sqlite3vfs calls Lock/Unlock around every read transaction"},
	})
}

var vfsGuarded = map[string]guardSpec{
	"VFSFile.index":          {[]string{"VFSFile.mu"}, []string{"VFSFile.mu"}, ""},
	"VFSFile.pending":        {[]string{"VFSFile.mu"}, []string{"VFSFile.mu"}, ""},
	"VFSFile.pendingReplace": {[]string{"VFSFile.mu"}, []string{"VFSFile.mu"}, ""},
	"VFSFile.commit":         {[]string{"VFSFile.mu"}, []string{"VFSFile.mu"}, ""},
	"VFSFile.maxTXID1":       {[]string{"VFSFile.mu"}, []string{"VFSFile.mu"}, ""},
	"VFSFile.lockType":       {[]string{"VFSFile.mu"}, []string{"VFSFile.mu"}, ""},
	"VFSFile.targetTime":     {[]string{"VFSFile.mu"}, []string{"VFSFile.mu"}, ""},
	"VFSFile.latestLTXTime":  {[]string{"VFSFile.mu"}, []string{"VFSFile.mu"}, ""},
	"Hydrator.txid":          {[]string{"Hydrator.mu"}, []string{"Hydrator.mu"}, ""},
	"Hydrator.err":           {[]string{"Hydrator.mu"}, []string{"Hydrator.mu"}, ""},
}

var vfsGuardExceptions = map[string]string{
	"(*ls.Hydrator).Init|Hydrator.txid|write":             "runs before the hydrator is shared with any goroutine (called from initHydration before the background restore starts)",
	"(*ls.Hydrator).Close|Hydrator.txid|read":             "runs after the VFS file's goroutines were stopped (VFSFile.Close waits for them first)",
	"(*ls.VFSFile).openNewDatabase|VFSFile.index|write":   "initialisation inside Open, before the monitor goroutines are started",
	"(*ls.VFSFile).openNewDatabase|VFSFile.pending|write": "initialisation inside Open, before the monitor goroutines are started",
	"(*ls.VFSFile).openNewDatabase|VFSFile.commit|write":  "initialisation inside Open, before the monitor goroutines are started",
}

func runC18(c *Ctx) {
	if c.fnOpt("(*ls.VFSFile).Open") == nil {
		c.note("VFS code is not part of this build configuration (tag vfs absent)")
		c.ok("R0-config", "vfs.go is excluded from this configuration", "", "no obligations in this configuration")
		return
	}
	// R1 index from the planner
	{
		const rule = "R1-index-from-restore-plan"
		plan := vOr(vResult(nameIs("ls.CalcRestorePlan"), 0), vResult(nameIs("(*ls.VFSFile).waitForRestorePlan"), 0))
		n := 0
		for _, name := range []string{"(*ls.VFSFile).Open", "(*ls.VFSFile).SetTargetTime", "(*ls.VFSFile).ResetTime"} {
			fn := c.fn(rule, name)
			if fn == nil {
				continue
			}
			for _, call := range callsTo(fn, nameIs("(*ls.VFSFile).rebuildIndex", "(*ls.VFSFile).buildIndex")) {
				n++
				infos := namedArg(call, "infos")
				c.check(infos != nil && plan(infos), rule, name+": the index is rebuilt from a restore plan", c.pos(call), "infos = CalcRestorePlan(...)", "the page index is built from something other than the restore planner's result")
			}
			for _, cp := range callsTo(fn, nameIs("ls.CalcRestorePlan")) {
				a := refArgs(cp)
				okC := vFieldLoad("VFSFile.client", nil)(a[1]) && vConstInt(0)(a[2])
				c.check(okC, rule, name+": plan computed on the file's own client for the latest TXID", c.pos(cp), "f.client, txID 0", "plan computed on another client or TXID")
				if name == "(*ls.VFSFile).SetTargetTime" {
					c.check(vParam("timestamp")(a[3]) && isParamExactly(a[3], fn.Params[2]), rule, name+": the requested timestamp reaches the planner unchanged", c.pos(cp), "timestamp parameter", "the planner is asked for a different time than the caller requested")
				}
				okF, why := failStopOK(fn, cp)
				c.check(okF, rule, name+": a failed plan fails the operation", c.pos(cp), "fail-stop", why)
			}
		}
		c.floor(rule, n, 3, "index rebuild sites")
		if w := c.fn(rule, "(*ls.VFSFile).waitForRestorePlan"); w != nil {
			ok := false
			for _, cp := range callsTo(w, nameIs("ls.CalcRestorePlan")) {
				if vFieldLoad("VFSFile.client", nil)(refArgs(cp)[1]) {
					ok = true
				}
			}
			c.check(ok, rule, fnName(w)+": obtains the plan from CalcRestorePlan on f.client", c.P.Pos(w.Pos()), "found", "not the planner")
		}
		if b := c.fn(rule, "(*ls.VFSFile).buildIndexMap"); b != nil {
			// map updates of the returned index take entries of FetchPageIndex(ctx, f.client, info) for info ranging over infos in order
			nUpd := 0
			for _, blk := range b.Blocks {
				for _, in := range blk.Instrs {
					mu, ok := in.(*ssa.MapUpdate)
					if !ok {
						continue
					}
					nUpd++
					okV := false
					for _, o := range origins(mu.Value) {
						if ex, isE := o.(*ssa.Extract); isE {
							if nx, isN := ex.Tuple.(*ssa.Next); isN {
								if rg, isR := nx.Iter.(*ssa.Range); isR && vResult(nameIs("ls.FetchPageIndex"), 0)(rg.X) {
									okV = true
								}
							}
						}
					}
					c.check(okV, rule, fnName(b)+": index entries come from the file's own page index", c.pos(mu), "range over FetchPageIndex result", "index entry of unknown provenance")
				}
			}
			c.floor(rule, nUpd, 1, "index updates in buildIndexMap")
			for _, fp := range callsTo(b, nameIs("ls.FetchPageIndex")) {
				a := refArgs(fp)
				// info = infos[i] with i the range index (plan order)
				okI := false
				for _, o := range origins(a[2]) {
					if u, isU := o.(*ssa.UnOp); isU {
						if ia, isIA := u.X.(*ssa.IndexAddr); isIA && vParam("infos")(ia.X) {
							okI = true
						}
					}
				}
				c.check(okI && vFieldLoad("VFSFile.client", nil)(a[1]), rule, fnName(b)+": page indexes are read for each plan element in plan order from f.client", c.pos(fp), "infos[i]", "page index not read per plan element")
				okF, why := failStopOK(b, fp)
				c.check(okF, rule, fnName(b)+": a failed page-index fetch fails the build", c.pos(fp), "fail-stop", why)
			}
			// commit = Commit of the (last) header fetched
			for _, st := range storesToField(b, "VFSFile.commit") {
				ok := false
				for _, o := range origins(st.Val) {
					if vFieldLoad("Header.Commit", nil)(o) {
						ok = true
					}
					if k, isK := o.(*ssa.Const); isK {
						_ = k
					}
				}
				c.check(ok, rule, fnName(b)+": f.commit = Commit of the last plan element's header", c.pos(st), "hdr.Commit", "commit of unknown provenance")
			}
			// "last" means newest: the plan is walked in ascending order (the value left in
			// `commit` is the one of the last file visited, and later files override earlier pages)
			nWalk := 0
			for _, hc := range callsTo(b, nameIs("ls.FetchLTXHeader")) {
				for _, o := range origins(refArgs(hc)[2]) {
					u, isU := o.(*ssa.UnOp)
					if !isU {
						continue
					}
					ia, isIA := u.X.(*ssa.IndexAddr)
					if !isIA || !vParam("infos")(ia.X) {
						continue
					}
					nWalk++
					asc, desc := false, false
					seenI := map[ssa.Value]bool{}
					var step func(v ssa.Value)
					step = func(v ssa.Value) {
						if v == nil || seenI[v] {
							return
						}
						seenI[v] = true
						switch x := v.(type) {
						case *ssa.Phi:
							for _, e := range x.Edges {
								step(e)
							}
						case *ssa.BinOp:
							if _, isK := x.Y.(*ssa.Const); isK {
								if _, isPhi := x.X.(*ssa.Phi); isPhi {
									switch x.Op {
									case token.ADD:
										asc = true
									case token.SUB:
										desc = true
									}
								}
								step(x.X)
							}
						}
					}
					step(ia.Index)
					c.check(asc && !desc, rule, fnName(b)+": the plan is walked oldest to newest, so the commit kept is the newest file's", c.pos(hc), "index recurrence i+1", "the plan is walked newest to oldest while `commit` keeps the value of the last file visited: f.commit ends up as the oldest file's page count and a later shrink is not detected")
				}
			}
			c.floor(rule, nWalk, 1, "FetchLTXHeader(infos[i]) in buildIndexMap")
		}
		if r := c.fn(rule, "(*ls.VFSFile).rebuildIndex"); r != nil {
			for _, st := range storesToField(r, "VFSFile.index") {
				c.check(vResult(nameIs("(*ls.VFSFile).buildIndexMap"), 0)(st.Val), rule, fnName(r)+": f.index = buildIndexMap(infos)", c.pos(st), "provenance matches", "index swapped in from elsewhere")
			}
			for _, st := range storesToField(r, "VFSFile.pos") {
				okP := false
				for _, o := range origins(st.Val) {
					if u, isU := o.(*ssa.UnOp); isU {
						if al2, isA2 := u.X.(*ssa.Alloc); isA2 {
							if f := compositeFields(al2); f != nil && vFieldLoad("FileInfo.MaxTXID", nil)(f["TXID"]) {
								okP = true
							}
						}
					}
					if al, isA := o.(*ssa.Alloc); isA {
						for _, s2 := range cellStores(al) {
							_ = s2
						}
						if f := compositeFields(al); f != nil && vFieldLoad("FileInfo.MaxTXID", nil)(f["TXID"]) {
							okP = true
						}
						for _, s2 := range cellStores(al) {
							for _, oo := range origins(s2) {
								if f := compositeFields(oo); f != nil && vFieldLoad("FileInfo.MaxTXID", nil)(f["TXID"]) {
									okP = true
								}
							}
						}
					}
					if _, isC := o.(*ssa.Const); isC {
						continue
					}
				}
				c.check(okP, rule, fnName(r)+": position = MaxTXID of the last plan element", c.pos(st), "infos[len-1].MaxTXID", "position of unknown provenance")
			}
			// pending state is discarded together with the old index
			okClr := false
			for _, st := range storesToField(r, "VFSFile.pendingReplace") {
				if vConstBool(false)(st.Val) {
					okClr = true
				}
			}
			c.check(okClr, rule, fnName(r)+": pending replacement state is reset with a fresh index", c.P.Pos(r.Pos()), "found", "stale pending state survives a rebuild")
		}
	}

	// R2 page fetch
	if fn := c.fn("R2-page-fetch", "(*ls.VFSFile).ReadAt"); fn != nil {
		const rule = "R2-page-fetch"
		n := 0
		for _, fp := range callsToDeep(fn, nameIs("ls.FetchPage")) {
			n++
			a := refArgs(fp)
			isElem := func(field string) VM {
				return func(v ssa.Value) bool {
					for _, o := range origins(v) {
						switch x := o.(type) {
						case *ssa.Field:
							if fieldName(x.X.Type(), x.Field) == "PageIndexElem."+field {
								return true
							}
						case *ssa.UnOp:
							if fa, ok := x.X.(*ssa.FieldAddr); ok && fieldAddrName(fa) == "PageIndexElem."+field {
								return true
							}
						}
					}
					return false
				}
			}
			ok := vFieldLoad("VFSFile.client", nil)(a[1]) && isElem("Level")(a[2]) && isElem("MinTXID")(a[3]) && isElem("MaxTXID")(a[4]) && isElem("Offset")(a[5]) && isElem("Size")(a[6])
			c.check(ok, rule, fnName(fn)+": FetchPage(f.client, elem.Level, elem.MinTXID, elem.MaxTXID, elem.Offset, elem.Size)", c.pos(fp), "all five coordinates from the looked-up element", "a page is fetched with coordinates that do not come from one index element")
		}
		c.floor(rule, n, 1, "FetchPage in ReadAt")
		// the element is f.index[pgno], pgno = off/pageSize + 1
		nl := 0
		for _, b := range fn.Blocks {
			for _, in := range b.Instrs {
				lk, ok := in.(*ssa.Lookup)
				if !ok || !vFieldLoad("VFSFile.index", nil)(lk.X) {
					continue
				}
				nl++
				okP := vBinOp(token.ADD, vBinOp(token.QUO, vParam("off"), vAny(), false), vConstInt(1), true)(lk.Index)
				c.check(okP, rule, fnName(fn)+": index lookup for pgno = off/pageSize + 1", c.pos(lk), "provenance matches", "wrong page number")
			}
		}
		c.floor(rule, nl, 1, "index lookup in ReadAt")
		// a missing page is an error for read replicas
		for _, r := range successReturns(fn) {
			_ = r
		}
	}

	// R3 header rewrite
	{
		const rule = "R3-header-rewrite-bounded"
		n := 0
		for _, fn := range c.P.ProdFuncs() {
			for _, b := range fn.Blocks {
				for _, in := range b.Instrs {
					st, ok := in.(*ssa.Store)
					if !ok {
						continue
					}
					ia, ok := st.Addr.(*ssa.IndexAddr)
					if !ok {
						continue
					}
					k, isK := constInt(ia.Index)
					if !isK || (k != 18 && k != 19) || !vConstInt(1)(st.Val) {
						continue
					}
					if el, okT := ia.X.Type().Underlying().(interface{ Elem() interface{} }); okT {
						_ = el
					}
					if !strings.Contains(ia.X.Type().String(), "byte") && !strings.Contains(ia.X.Type().String(), "uint8") {
						continue
					}
					n++
					first := []FP{
						cmpFact(vParam("off"), token.EQL, vConstInt(0), "off == 0"),
						cmpFact(vFieldLoad("PageHeader.Pgno", nil), token.EQL, vConstInt(1), "page number == 1"),
					}
					c.requireAlts(rule, fn, Site{st, "header byte rewrite"}, first)
				}
			}
			for _, rr := range callsTo(fn, nameIs("crypto/rand.Read")) {
				sl, ok := rr.Common().Args[0].(*ssa.Slice)
				if !ok {
					continue
				}
				lo, okL := constInt(sl.Low)
				hi, okH := constInt(sl.High)
				c.check(okL && okH && lo == 24 && hi == 28, rule, fnName(fn)+": only bytes 24..27 (schema cookie) are randomised", c.pos(rr), "p[24:28]", "other bytes of the page are overwritten")
			}
		}
		c.floor(rule, n, 2, "header byte rewrites (bytes 18/19)") // 8 on the reference tree; the copies may share one helper
	}

	la := newLockAnalysis(c.P)
	la.interproc()
	guardedBy2(c, la, "R4-guarded-by", vfsGuarded, vfsGuardExceptions, 30)

	// R5 pending replacement flag
	if fn := c.fn("R5-pending-replace", "(*ls.VFSFile).pollReplicaClient"); fn != nil {
		const rule = "R5-pending-replace"
		noReader := cmpFact(vFieldLoad("VFSFile.lockType", nil), token.LSS, vAny(), "f.lockType < LockShared (no reader holds a lock)")
		n := 0
		for _, st := range storesToField(fn, "VFSFile.pendingReplace") {
			n++
			if vConstBool(true)(st.Val) && isConst(st.Val) {
				c.ok(rule, fnName(fn)+": pendingReplace = true", c.pos(st), "sets the flag")
				continue
			}
			if !isConst(st.Val) {
				c.fail(rule, fnName(fn)+": pendingReplace is only assigned constants", c.pos(st), "a computed value can clear a pending replacement while a reader still holds its lock: Unlock would then merge instead of replace and stale pages beyond the new size stay indexed")
				continue
			}
			c.requireGuard(rule, fn, Site{st, "pendingReplace = false"}, noReader)
		}
		c.floor(rule, n, 2, "pendingReplace stores in pollReplicaClient")
		// a replacement seen while a reader holds a lock goes to pending and sets the flag
		// time travel freezes the index
		for _, st := range storesToField(fn, "VFSFile.commit") {
			c.requireGuard(rule, fn, Site{st, "f.commit = ..."}, cmpFact(vFieldLoad("VFSFile.targetTime", nil), token.EQL, vNil(), "no time-travel target"))
		}
		c18TimeTravelFreeze(c, rule)
	}
	if fn := c.fn("R5-pending-replace", "(*ls.VFSFile).Unlock"); fn != nil {
		const rule = "R5-pending-replace"
		// index = pending only when the flag is set; afterwards both are reset
		for _, st := range storesToFieldDeep(fn, "VFSFile.index") {
			c.requireGuard(rule, fn, Site{st, "f.index = f.pending"}, truthFact(vFieldLoad("VFSFile.pendingReplace", nil), true, "f.pendingReplace"))
			c.check(vFieldLoad("VFSFile.pending", nil)(st.Val), rule, fnName(fn)+": replacement installs the pending index", c.pos(st), "f.pending", "installs something else")
		}
		okR := false
		for _, st := range storesToFieldDeep(fn, "VFSFile.pendingReplace") {
			if vConstBool(false)(st.Val) {
				okR = true
				// after applying
				for _, s2 := range storesToFieldDeep(fn, "VFSFile.index") {
					c.check(!dominates(st, s2), rule, fnName(fn)+": the flag is cleared after it was applied", c.pos(st), "ordered", "flag cleared before use")
				}
			}
		}
		c.check(okR, rule, fnName(fn)+": clears the flag once applied", c.P.Pos(fn.Pos()), "found", "flag never cleared")
	}

	c18TargetFresh(c)
	c18HydrationComplete(c)

	// R6 polling and catch-up
	if fn := c.fn("R6-contiguous-polling", "(*ls.VFSFile).pollLevel"); fn != nil {
		const rule = "R6-contiguous-polling"
		item := vResult(isItem, 0)
		for _, fp := range callsTo(fn, nameIs("ls.FetchPageIndex")) {
			c.requireGuard(rule, fn, Site{fp, "FetchPageIndex(info)"}, cmpFact(vFieldLoad("FileInfo.MinTXID", item), token.EQL, vPlusOne(vAny()), "info.MinTXID == maxTXID+1"))
		}
		for _, l := range callsTo(fn, isLTXFiles) {
			c.check(vParam("level")(namedArg(l, "level")) && vPlusOne(vParam("prevMaxTXID"))(namedArg(l, "seek")), rule, fnName(fn)+": lists the level from prevMaxTXID+1", c.pos(l), "provenance matches", "poll does not continue where it stopped")
		}
		// shrink detection
		es := factEdges(fn, cmpFact(vFieldLoad("Header.Commit", nil), token.LSS, vAny(), ""))
		c.floor(rule, len(es), 1, "shrink detection (hdr.Commit < lastCommit)")
	}
	// wherever the hydration TXID is advanced to a file's MaxTXID, the file has been applied
	// completely: the store is guarded by ApplyLTX's success, or nothing after it in the same
	// function can still fail (the TXID is saved on close and trusted on the next open)
	{
		const rule = "R6-hydration-txid-after-apply"
		n := 0
		for _, g := range c.P.ProdFuncs() {
			for _, st := range storesToField(g, "Hydrator.txid") {
				if !vFieldLoad("FileInfo.MaxTXID", nil)(st.Val) {
					continue
				}
				n++
				okA := false
				for _, ap := range callsTo(g, nameIs("(*ls.Hydrator).ApplyLTX")) {
					if gd, k := guardedBy(st, cmpFact(vIs(resultOf(ap, 0)), token.EQL, vNil(), "")); k > 0 && gd {
						okA = true
					}
				}
				okB := true
				succ := map[*ssa.Return]bool{}
				for _, r := range successReturns(g) {
					succ[r] = true
				}
				region := reachable(g, st.Block(), nil)
				for _, r := range returns(g) {
					if region[r.Block()] && !succ[r] {
						okB = false
					}
				}
				c.check(okA || okB, rule, fnName(g)+": the hydration TXID advances to info.MaxTXID only once the file is fully applied", c.pos(st),
					"guarded by ApplyLTX err == nil, or no failure exit follows the store", "the hydration TXID is advanced before the file's pages are known to be applied: an interrupted apply leaves a TXID that claims the file, and the next open skips it")
			}
		}
		c.floor(rule, n, 1, "stores of FileInfo.MaxTXID to Hydrator.txid")
	}
	if fn := c.fn("R6-contiguous-polling", "(*ls.Hydrator).CatchUp"); fn != nil {
		const rule = "R6-catch-up-inclusive"
		item := vResult(isItem, 0)
		to := vParam("toTXID")
		for _, ap := range callsTo(fn, nameIs("(*ls.Hydrator).ApplyLTX")) {
			c.requireGuard(rule, fn, Site{ap, "ApplyLTX(info)"}, cmpFact(vFieldLoad("FileInfo.MaxTXID", item), token.LEQ, to, "info.MaxTXID <= toTXID"))
			for _, st := range storesToField(fn, "Hydrator.txid") {
				c.requireGuard(rule, fn, Site{st, "h.txid = info.MaxTXID"}, cmpFact(vIs(resultOf(ap, 0)), token.EQL, vNil(), "ApplyLTX err == nil"))
				c.check(vFieldLoad("FileInfo.MaxTXID", item)(st.Val), rule, fnName(fn)+": hydration TXID = applied file's MaxTXID", c.pos(st), "provenance matches", "TXID of unknown provenance")
			}
		}
		// the only early loop exit is MaxTXID > toTXID (strict): files ending exactly at toTXID are applied
		loops := naturalLoops(fn)
		n := 0
		for _, b := range fn.Blocks {
			ifi, ok := lastInstr(b).(*ssa.If)
			if !ok {
				continue
			}
			l := innermostLoopOf(loops, b)
			if l == nil {
				continue
			}
			for e := 0; e < 2; e++ {
				f := edgeFact(ifi, e)
				involves := f.Op != token.ILLEGAL && (to(f.L) || to(f.R))
				if !involves || l.Blocks[b.Succs[e]] {
					continue
				}
				n++
				strict := cmpFact(vFieldLoad("FileInfo.MaxTXID", item), token.GTR, to, "").holds(f)
				c.check(strict, rule, fnName(fn)+": catch-up stops only at a file that ends beyond toTXID (strictly)", c.pos(ifi), "exit edge carries info.MaxTXID > toTXID", "the file that ends exactly at the target TXID is skipped: its pages never reach the hydrated file although hydration is reported complete")
			}
		}
		c.floor(rule, n, 1, "early exit of the catch-up loop")
		for _, l := range callsTo(fn, isLTXFiles) {
			c.check(vConstInt(0)(namedArg(l, "level")) && vPlusOne(vParam("fromTXID"))(namedArg(l, "seek")), rule, fnName(fn)+": lists level 0 from fromTXID+1", c.pos(l), "provenance matches", "wrong start")
		}
	}
	// O1 observation
	if fn := c.fnOpt("(*ls.VFSFile).FileSize"); fn != nil {
		usesCommit := false
		for _, b := range fn.Blocks {
			for _, in := range b.Instrs {
				if u, ok := in.(*ssa.UnOp); ok {
					if fa, ok := u.X.(*ssa.FieldAddr); ok && fieldAddrName(fa) == "VFSFile.commit" {
						usesCommit = true
					}
				}
			}
		}
		if !usesCommit {
			c.info("O1-observation", fnName(fn)+": FileSize derives from the largest indexed page, not from the commit record", c.P.Pos(fn.Pos()), "recorded observation (no rule armed)")
		}
	}
}

// c18TargetFresh (R5b): the map that receives the polled page updates is, on
// every path, the map the VFSFile field (index / pending) holds at that moment:
// a local alias taken before the field was re-assigned (`f.pending = make(...)`)
// would send the updates into a map that Unlock no longer sees.
func c18TargetFresh(c *Ctx) {
	const rule = "R5-pending-replace"
	fn := c.fn(rule, "(*ls.VFSFile).pollReplicaClient")
	if fn == nil {
		return
	}
	fieldOf := func(v ssa.Value) string {
		u, ok := v.(*ssa.UnOp)
		if !ok || u.Op != token.MUL {
			return ""
		}
		fa, ok := u.X.(*ssa.FieldAddr)
		if !ok {
			return ""
		}
		switch n := fieldAddrName(fa); n {
		case "VFSFile.index", "VFSFile.pending":
			return n
		}
		return ""
	}
	// stale(l, end): a store to l's field can execute after load l and before the end of block `end`
	stale := func(l ssa.Value, end *ssa.BasicBlock) string {
		f := fieldOf(l)
		if f == "" {
			return ""
		}
		li := l.(ssa.Instruction)
		for _, st := range storesToField(fn, f) {
			if st.Block().Parent() != fn {
				continue
			}
			after := (st.Block() == li.Block() && instrIndex(st) > instrIndex(li)) || (st.Block() != li.Block() && reachable(fn, li.Block(), nil)[st.Block()])
			before := st.Block() == end || reachable(fn, st.Block(), nil)[end]
			if st.Block() == end && st.Block() == li.Block() && instrIndex(st) < instrIndex(li) {
				after = false
			}
			if after && before {
				return c.pos(st)
			}
		}
		return ""
	}
	type vk struct {
		v   ssa.Value
		end *ssa.BasicBlock
	}
	var check func(v ssa.Value, end *ssa.BasicBlock, seen map[vk]bool) string
	check = func(v ssa.Value, end *ssa.BasicBlock, seen map[vk]bool) string {
		if seen[vk{v, end}] {
			return ""
		}
		seen[vk{v, end}] = true
		if phi, ok := v.(*ssa.Phi); ok {
			for i, e := range phi.Edges {
				// the operand must be fresh at the end of its predecessor ...
				if w := check(e, phi.Block().Preds[i], seen); w != "" {
					return w
				}
				// ... and stay fresh from the phi to `end`
				if _, isPhi := e.(*ssa.Phi); !isPhi {
					if fieldOf(e) != "" && end != phi.Block().Preds[i] {
						f := fieldOf(e)
						for _, st := range storesToField(fn, f) {
							if st.Block().Parent() != fn {
								continue
							}
							if (st.Block() == phi.Block() || reachable(fn, phi.Block(), nil)[st.Block()]) && (st.Block() == end || reachable(fn, st.Block(), nil)[end]) && st.Block() != phi.Block().Preds[i] {
								if !reachable(fn, st.Block(), nil)[phi.Block()] { // not a loop back to the phi
									return c.pos(st)
								}
							}
						}
					}
				}
			}
			return ""
		}
		return stale(v, end)
	}
	n := 0
	for _, b := range fn.Blocks {
		for _, in := range b.Instrs {
			mu, ok := in.(*ssa.MapUpdate)
			if !ok {
				continue
			}
			isIdx := false
			leaves, _ := phiLeaves(mu.Map)
			for _, l := range leaves {
				if fieldOf(l) != "" {
					isIdx = true
				}
			}
			if !isIdx {
				continue
			}
			n++
			w := check(mu.Map, mu.Block(), map[vk]bool{})
			c.check(w == "", rule, fnName(fn)+": the map receiving polled page updates is the one currently stored in f.index / f.pending", c.pos(mu), "no re-assignment of the field between the alias and the update on any path",
				"the update target is an alias taken before the field was re-assigned at "+w+": the polled pages go into a map that is no longer the pending/main index")
		}
	}
	c.floor(rule, n, 1, "page index updates in pollReplicaClient")
}

// c18HydrationComplete (R7): hydrated reads are enabled only by runHydration, and only
// after restore and catch-up succeeded (the hydrated file is then at the index's TXID).
func c18HydrationComplete(c *Ctx) {
	const rule = "R7-hydration-complete-only-after-catch-up"
	n := 0
	for _, fn := range c.P.ProdFuncs() {
		for _, call := range callsTo(fn, nameIs("(*ls.Hydrator).SetComplete")) {
			n++
			root := fn
			for root.Parent() != nil {
				root = root.Parent()
			}
			c.check(fnName(root) == "(*ls.VFSFile).runHydration", rule, "Hydrator.SetComplete called from "+fnName(root), c.pos(call), "runHydration",
				"hydrated reads are (re-)enabled outside the hydration run: the local file may be behind or ahead of the page index (e.g. after time travel), so reads return pages of another TXID")
		}
	}
	c.floor(rule, n, 1, "Hydrator.SetComplete call sites")
	if fn := c.fn(rule, "(*ls.VFSFile).runHydration"); fn != nil {
		for _, sc := range callsTo(fn, nameIs("(*ls.Hydrator).SetComplete")) {
			for _, k := range callsTo(fn, nameIs("(*ls.Hydrator).Restore", "(*ls.Hydrator).CatchUp", "(*ls.Hydrator).Truncate")) {
				kerr := resultOf(k, errResultIndex(k.Common().Signature()))
				if kerr == nil {
					continue
				}
				bad := false
				for _, e := range factEdges(fn, cmpFact(vIs(kerr), token.NEQ, vNil(), "")) {
					if reachable(fn, e.From.Succs[e.Succ], nil)[sc.Block()] {
						bad = true
					}
				}
				c.check(!bad, rule, fnName(fn)+": SetComplete is unreachable after a failed "+calleeName(k), c.pos(k), "fail-stop", "hydration is marked complete although "+calleeName(k)+" failed")
			}
		}
	}
}

// c18TimeTravelFreeze: while a time-travel target is set the poll does not touch the index;
// the test belongs to the critical section that applies the update (shared with C15: a
// connection that claims time T never serves pages replicated after T).
func c18TimeTravelFreeze(c *Ctx, rule string) {
	fn := c.fnOpt("(*ls.VFSFile).pollReplicaClient")
	if fn == nil {
		return
	}
	for _, st := range storesToField(fn, "VFSFile.commit") {
		c.requireGuard(rule, fn, Site{st, "f.commit = ..."}, cmpFact(vFieldLoad("VFSFile.targetTime", nil), token.EQL, vNil(), "no time-travel target"))
	}
	// ... and the test belongs to the critical section that applies the update: a
	// SetTargetTime that runs while the poll waits for the remote listing (lock released)
	// must still stop the merge
	for _, f := range []string{"VFSFile.commit", "VFSFile.pos"} {
		for _, st := range storesToField(fn, f) {
			if st.Parent() != fn {
				continue
			}
			okCS := false
			for _, b := range fn.Blocks {
				for _, in := range b.Instrs {
					ld, isL := in.(*ssa.UnOp)
					if !isL || ld.Op != token.MUL {
						continue
					}
					fa, isFA := ld.X.(*ssa.FieldAddr)
					if !isFA || fieldAddrName(fa) != "VFSFile.targetTime" {
						continue
					}
					if dominates(ld, st) && !releaseBetween(fn, ld, st, "VFSFile.mu") {
						okCS = true
					}
				}
			}
			c.check(okCS, rule, fnName(fn)+": "+f+" is updated in the critical section that tested the time-travel target", c.pos(st), "targetTime read after the last acquisition of VFSFile.mu before the update",
				"the time-travel test and the index update are in different critical sections: a target set while the poll waited for the replica is overwritten by newer pages although the connection claims time T")
		}
	}
}
