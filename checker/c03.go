package main

// C03 — killing litestream at any instant loses nothing acknowledged and needs no repair.

import (
	"fmt"
	"go/token"
	"strings"

	"golang.org/x/tools/go/ssa"
)

func init() {
	register(&PropSpec{
		ID:  "C03",
		Run: runC03,
		Explanation: "Structural clauses that make a kill at any instant harmless, decided on every path: (R1) tmp staging — every create-for-write opener of the production program writes to a path with TMP provenance " +
			"(X + \".tmp\", os.CreateTemp, a suffix of such a path, or a parameter all of whose callers pass one) and every rename publishes src = dst + \".tmp\"; with C11 this means a final LTX name, the restore output and the TXID sidecar " +
			"are only ever the target of an atomic rename of a completed, synced file; (R2) DB.Open starts monitoring only after stale .tmp files were removed; (R3) listings ignore names that do not parse as LTX; " +
			"(R4) DB.Pos caches/returns a non-zero position only after the newest L0 file passed checksum verification; (R5) Replica.syncOnce zeroes its cached position on every error exit so the next sync recomputes it from the remote listing; " +
			"(R6) every failure exit after a staging opener removes the staged file. R7: every staging file is opened so that a leftover of a killed run is replaced (truncate semantics, never O_EXCL). The follow-mode resume validation accepts every sidecar value a follower can have written (shared with C16-R7, levels 0..8).",
		NotDecided:  "enumeration of syscall-level kill points against a real file system; SQLite's own crash recovery; atomicity of remote PUTs",
		Assumptions: []string{"POSIX rename atomicity", "a kill leaves files as the completed syscalls left them"},
	})
}

// vfs local caches: not replica/restore names, rebuilt from the replica on open.
var createExceptions = map[string]string{
	"(*ls.VFS).openTempFile":                "SQLite temp files of the VFS (scratch space, never read back after a restart)",
	"(*ls.Hydrator).Init":                   "local hydration cache of the VFS; validity is tracked by the separately published .meta file (tmp + rename)",
	"(*ls.VFSFile).initWriteBufferWithLock": "VFS write buffer, explicitly discarded on restart",
	"ls/internal.CreateFile":                "helper: creates the path given by its caller (callers are checked)",
	"ls.defaultOpenLTXFile":                 "helper installed in the DB.openLTXFile slot: opens the path given by (*DB).sync (checked at the slot call)",
}

// tmpProvenance reports whether path value v provably names a temporary file.
func tmpProvenance(p *Prog, v ssa.Value, depth int) bool {
	if depth > 4 {
		return false
	}
	os := origins(v)
	if len(os) == 0 {
		return false
	}
	for _, o := range os {
		ok := false
		switch x := o.(type) {
		case *ssa.BinOp:
			if x.Op == token.ADD {
				if s, isC := constString(x.Y); isC && s == ".tmp" {
					ok = true
				} else if tmpProvenance(p, x.X, depth+1) {
					ok = true // suffix of a temporary path (tmp + "-wal")
				}
			}
		case *ssa.Call:
			if calleeName(x) == "(*os.File).Name" && vCallResult(nameIs("os.CreateTemp"))(x.Call.Args[0]) {
				ok = true
			}
		case *ssa.Parameter:
			// every production caller passes a temporary path
			fn := x.Parent()
			idx := -1
			for i, q := range fn.Params {
				if q == x {
					idx = i
				}
			}
			n := 0
			all := true
			for _, g := range p.ProdFuncs() {
				for _, call := range calls(g) {
					if call.Common().StaticCallee() != fn {
						continue
					}
					n++
					if idx >= len(call.Common().Args) || !tmpProvenance(p, call.Common().Args[idx], depth+1) {
						all = false
					}
				}
			}
			ok = n > 0 && all
		}
		if !ok {
			return false
		}
	}
	return true
}

func runC03(c *Ctx) {
	// R1a rename pairs
	fsPublicationRules(c, false, true)
	// a killed follower restarts without manual intervention: the resume validation
	// accepts every sidecar value the follower can have written (shared with C16)
	c16Resume(c)
	createTruncRule(c, "R7-staging-open-replaces-leftover")
	remoteStagingUnique(c, "R8-remote-staging-unique")
	// the first sync after a restart decides from the WAL and the last LTX file alone whether
	// replication may continue incrementally (the kill may have come between an acknowledged
	// sync and any amount of application activity): the continuity rules of C04
	c04DefaultDeny(c)
	c04Helpers(c)

	// R1b who-may-create
	{
		const rule = "R1-tmp-staging"
		n := 0
		for _, fn := range c.P.ProdFuncs() {
			root := fn
			for root.Parent() != nil {
				root = root.Parent()
			}
			if tp := typesPkgOf(root); tp == nil {
				continue
			} else if rel, _ := relPkg(tp); rel == "cmd/litestream" {
				continue // CLI: config/log files, not replica state
			}
			for _, call := range calls(fn) {
				path, creates, ok := openerInfo(call)
				if !ok || !creates {
					continue
				}
				n++
				construct := fmt.Sprintf("%s: %s creates its file under a temporary name", fnName(root), calleeName(call))
				if reason, exc := createExceptions[fnName(root)]; exc {
					c.ok(rule, construct+" [named exception]", c.pos(call), reason)
					continue
				}
				if calleeName(call) == "os.CreateTemp" {
					c.ok(rule, construct, c.pos(call), "os.CreateTemp")
					continue
				}
				c.check(tmpProvenance(c.P, path, 0), rule, construct, c.pos(call), "path has TMP provenance", "a file is created/truncated directly under a non-temporary name: a kill mid-write leaves a partial file visible under that name")
			}
		}
		c.floor(rule, n, 8, "create-for-write openers in production code")
	}

	// R2 DB.Open
	if fn := c.fn("R2-open-removes-tmp", "(*ls.DB).Open"); fn != nil {
		const rule = "R2-open-removes-tmp"
		rm := callsTo(fn, nameIs("ls.removeTmpFiles"))
		c.floor(rule, len(rm), 1, "removeTmpFiles call in DB.Open")
		for _, r := range rm {
			c.check(vFieldLoad("DB.metaPath", nil)(r.Common().Args[0]), rule, fnName(fn)+": removeTmpFiles(db.metaPath)", c.pos(r), "meta directory", "stale temporary files are not removed from the meta directory")
			nilE := cmpFact(vIs(resultOf(r, 0)), token.EQL, vNil(), "removeTmpFiles err == nil")
			n := 0
			for _, b := range fn.Blocks {
				for _, in := range b.Instrs {
					if g, ok := in.(*ssa.Go); ok {
						n++
						c.requireGuard(rule, fn, Site{g, "start of the monitor goroutine"}, nilE)
					}
				}
			}
			for _, st := range storesToField(fn, "DB.opened") {
				if vConstBool(true)(st.Val) {
					n++
					c.requireGuard(rule, fn, Site{st, "db.opened = true"}, nilE)
				}
			}
			c.floor(rule, n, 2, "monitor start / opened=true in DB.Open")
		}
		// removeTmpFiles removes exactly the .tmp-suffixed regular files
		if rt := c.fn(rule, "ls.removeTmpFiles"); rt != nil {
			n := 0
			fs := withClosures(rt)
			for _, h := range deepFuncs(rt)[1:] {
				fs = append(fs, withClosures(h)...)
			}
			for _, f := range fs {
				for _, call := range callsTo(f, nameIs("os.Remove")) {
					n++
					c.requireGuard(rule, f, Site{call, "os.Remove(path)"}, truthFact(vCall("strings.HasSuffix", nil, vConstStr(".tmp")), true, "strings.HasSuffix(path, \".tmp\")"))
				}
			}
			c.floor(rule, n, 1, "os.Remove in removeTmpFiles")
		}
	}

	// R3 listings ignore foreign names
	{
		const rule = "R3-listings-ignore-foreign-names"
		parseOK := cmpFact(vResult(nameIs("ltx.ParseFilename"), 2), token.EQL, vNil(), "ltx.ParseFilename err == nil")
		if fn := c.fn(rule, "(*ls/file.ReplicaClient).LTXFiles"); fn != nil {
			n := 0
			for _, call := range calls(fn) {
				if calleeName(call) == "builtin:append" {
					n++
					c.requireGuard(rule, fn, Site{call, "infos = append(infos, ...)"}, parseOK)
				}
			}
			c.floor(rule, n, 1, "appends in file LTXFiles")
		}
		if fn := c.fn(rule, "(*ls.DB).MaxLTX"); fn != nil {
			n := 0
			for _, r := range returns(fn) {
				for i := 0; i < 2 && i < len(r.Results); i++ {
					if phi, ok := r.Results[i].(*ssa.Phi); ok {
						for k, e := range phi.Edges {
							if vResult(nameIs("ltx.ParseFilename"), i)(e) && !isConst(e) {
								if _, isPhi := e.(*ssa.Phi); isPhi {
									continue
								}
								n++
								pred := phi.Block().Preds[k]
								c.check(edgeHasFact(pred, phi.Block(), parseOK), rule, fmt.Sprintf("%s: result %d taken from a parsed file name only when ParseFilename succeeded", fnName(fn), i), c.pos(lastInstr(pred)), "edge carries err == nil", "a name that does not parse as an LTX file can determine the local position")
							}
						}
					}
				}
			}
			c.floor(rule, n, 1, "selection edges in DB.MaxLTX")
		}
	}

	// R4 DB.Pos verified by checksum
	if fn := c.fn("R4-pos-from-verified-file", "(*ls.DB).Pos"); fn != nil {
		const rule = "R4-pos-from-verified-file"
		ver := callsTo(fn, nameIs("(*ltx.Decoder).Verify"))
		c.floor(rule, len(ver), 1, "dec.Verify call in DB.Pos")
		for _, v := range ver {
			okE := cmpFact(vIs(resultOf(v, 0)), token.EQL, vNil(), "dec.Verify() err == nil")
			n := 0
			for _, b := range fn.Blocks {
				for _, in := range b.Instrs {
					st, ok := in.(*ssa.Store)
					if !ok {
						continue
					}
					if fa, ok := st.Addr.(*ssa.FieldAddr); ok && strings.HasSuffix(fieldAddrName(fa), ".value") && !isNilConst(st.Val) {
						n++
						c.requireGuard(rule, fn, Site{st, "db.pos.value = &pos"}, okE)
					}
				}
			}
			c.floor(rule, n, 1, "position cache store in DB.Pos")
			for _, call := range callsTo(fn, nameIs("(*ltx.Decoder).PostApplyPos")) {
				c.requireGuard(rule, fn, Site{call, "dec.PostApplyPos()"}, okE)
			}
			// the verified file is the one named by MaxLTX
			for _, o := range callsTo(fn, nameIs("os.Open")) {
				okP := false
				for _, oo := range origins(o.Common().Args[0]) {
					if lp, isC := oo.(*ssa.Call); isC && calleeName(lp) == "(*ls.DB).LTXPath" {
						a := refArgs(lp)
						okP = vConstInt(0)(a[1]) && vResult(nameIs("(*ls.DB).MaxLTX"), 0)(a[2]) && vResult(nameIs("(*ls.DB).MaxLTX"), 1)(a[3])
					}
				}
				c.check(okP, rule, fnName(fn)+": verified file = LTXPath(0, MaxLTX())", c.pos(o), "newest local L0 file", "position is derived from a file other than the newest local L0 file")
			}
		}
	}

	// R5 syncOnce zeroes the cached position on error
	if fn := c.fn("R5-replica-pos-reset-on-error", "(*ls.Replica).syncOnce"); fn != nil {
		const rule = "R5-replica-pos-reset-on-error"
		found := false
		var deferInstr ssa.Instruction
		for _, b := range fn.Blocks {
			for _, in := range b.Instrs {
				d, ok := in.(*ssa.Defer)
				if !ok {
					continue
				}
				mc, ok := d.Call.Value.(*ssa.MakeClosure)
				if !ok {
					continue
				}
				cl := mc.Fn.(*ssa.Function)
				for _, st := range storesToField(cl, "Replica.pos") {
					// zero value: a load from a fresh zero Alloc, or a zero struct const
					zero := false
					switch v := st.Val.(type) {
					case *ssa.Const:
						zero = true
					case *ssa.UnOp:
						if al, ok := v.X.(*ssa.Alloc); ok && len(cellStores(al)) == 0 && len(compositeFields(al)) == 0 {
							zero = true
						}
					}
					if !zero {
						continue
					}
					// guarded by err != nil on the named result
					g, n := guardedBy(st, cmpFact(func(v ssa.Value) bool {
						u, ok := v.(*ssa.UnOp)
						if !ok {
							return false
						}
						_, isFV := u.X.(*ssa.FreeVar)
						return isFV && isErrorType(v.Type())
					}, token.NEQ, vNil(), "err != nil"))
					if n > 0 && g {
						found = true
						deferInstr = d
					}
				}
			}
		}
		c.check(found, rule, fnName(fn)+": deferred closure stores the zero position under err != nil", c.P.Pos(fn.Pos()), "found", "the cached replica position survives a failed sync (a stale position could skip files after a partial upload)")
		if found {
			// registered before the first fallible replication step
			for _, vs := range callSitesV(fn, nameIs("(*ls.Replica).calcPos", "(*ls.Replica).uploadLTXFile", "(*ls.DB).Pos")) {
				call := vs.Call()
				c.check(dominates(deferInstr, vs.At()), rule, fnName(fn)+": reset is registered before "+calleeName(call), c.pos(call), "defer dominates the call", "an error from this step can leave the cached position in place")
			}
			// a zero position forces recomputation from the remote listing
			cp := callSitesV(fn, nameIs("(*ls.Replica).calcPos"))
			c.floor(rule, len(cp), 1, "calcPos call in syncOnce")
			for _, vs := range cp {
				vs.Desc = "calcPos"
				c.requireGuardV(rule, fn, vs, truthFact(vCall("(ltx.Pos).IsZero", nil), true, "r.Pos().IsZero()"))
			}
		}
		if cp := c.fn(rule, "(*ls.Replica).calcPos"); cp != nil {
			ok := false
			for _, call := range callsTo(cp, nameIs("(*ls.Replica).MaxLTXFileInfo")) {
				if vConstInt(0)(refArgs(call)[2]) {
					ok = true
				}
			}
			c.check(ok, rule, fnName(cp)+": position recomputed from the level-0 remote listing", c.P.Pos(cp.Pos()), "MaxLTXFileInfo(ctx, 0)", "replica position is not recomputed from the remote L0 listing")
		}
	}

	// R6 staged files are removed on failure
	{
		const rule = "R6-staged-file-removed-on-failure"
		n := 0
		for _, rs := range renameSites(c.P) {
			if rs.Delegated {
				continue // checked at the publish helper's call sites (lifted sites)
			}
			fn := rs.Fn
			name := fnName(fn)
			// opener of src in fn (or a producer callee)
			var open ssa.Instruction
			for _, call := range calls(fn) {
				path, _, ok := openerInfo(call)
				if ok && path != nil && exprEq(path, rs.Src) {
					open = call
				}
				if ok && path == nil && calleeName(call) == "os.CreateTemp" {
					open = call
				}
			}
			if open == nil {
				for _, call := range calls(fn) {
					if _, isCall := call.(*ssa.Call); !isCall {
						continue
					}
					for _, a := range call.Common().Args {
						if exprEq(a, rs.Src) && call.Common().StaticCallee() != nil && c.P.InP(call.Common().StaticCallee()) && calleeName(call) != "os.Rename" {
							if open == nil || dominates(call, open) {
								open = call
							}
						}
					}
				}
			}
			if open == nil {
				c.fail(rule, name+": staged file opener found for rename@"+shortExpr(rs.Dst), c.pos(rs.Call), "no opener/producer of the renamed source found")
				continue
			}
			n++
			// R7: a leftover of a killed run must not block the next run: the staging
			// file is opened so that an existing file of the same name is replaced
			c03StagingOpen(c, fn, open.(ssa.CallInstruction), rs)
			// removal sites: deferred closures / deferred calls / explicit calls to os.Remove(src)
			var deferred []ssa.Instruction
			explicit := map[*ssa.BasicBlock]bool{}
			for _, b := range fn.Blocks {
				for _, in := range b.Instrs {
					switch x := in.(type) {
					case *ssa.Defer:
						if calleeName(x) == "os.Remove" && exprEq(x.Call.Args[0], rs.Src) {
							deferred = append(deferred, x)
						}
						if mc, ok := x.Call.Value.(*ssa.MakeClosure); ok {
							for _, rc := range callsTo(mc.Fn.(*ssa.Function), nameIs("os.Remove")) {
								if exprEq(rc.Common().Args[0], rs.Src) {
									// conditional removal must be conditioned on the error result
									deferred = append(deferred, x)
								}
							}
						}
					case *ssa.Call:
						if calleeName(x) == "os.Remove" && exprEq(x.Call.Args[0], rs.Src) {
							explicit[b] = true
						}
					}
				}
			}
			// every failure return reachable after the opener succeeded is covered
			openNil := nilEdges(fn, open.(ssa.CallInstruction))
			bad := ""
			for _, ret := range returns(fn) {
				if canSucceed(ret) {
					continue
				}
				// only returns that can follow a successful open
				after := false
				for _, e := range openNil {
					if reachable(fn, e.From.Succs[e.Succ], nil)[ret.Block()] {
						after = true
					}
				}
				if !after {
					continue
				}
				covered := false
				for _, d := range deferred {
					if dominates(d, ret) {
						covered = true
					}
				}
				if !covered {
					// explicit removal on this error branch: some block with os.Remove(src) dominates the return
					for b := range explicit {
						if b == ret.Block() || b.Dominates(ret.Block()) {
							covered = true
						}
					}
				}
				if !covered {
					// returns that follow a successful rename have no staged file left
					if g, n := guardedBy(ret, cmpFact(vIs(resultOf(rs.Call, 0)), token.EQL, vNil(), "")); n > 0 && g {
						continue
					}
					bad = fmt.Sprintf("%s (block %d)", c.pos(ret), ret.Block().Index)
				}
			}
			c.check(bad == "", rule, name+": every failure exit after staging "+shortExpr(rs.Src)+" removes the staged file", c.pos(open), fmt.Sprintf("%d deferred and %d explicit removal site(s) cover all failure returns", len(deferred), len(explicit)), "failure return at "+bad+" leaves the staged file behind")
		}
		c.floor(rule, n, 6, "staging sites")
	}
}

// c03StagingOpen (R7): the staging file of a rename is created with truncate
// semantics and never with O_EXCL (a SIGKILL leaves the deterministic .tmp
// name behind; O_EXCL would make every later write of that file fail).
func c03StagingOpen(c *Ctx, fn *ssa.Function, open ssa.CallInstruction, rs RenameSite) {
	const rule = "R7-staging-open-replaces-leftover"
	_, _, _, oCreate, oExcl, oTrunc := osOpenFlags()
	var check func(call ssa.CallInstruction, depth int) (decided bool, ok bool, why string)
	check = func(call ssa.CallInstruction, depth int) (bool, bool, string) {
		switch calleeName(call) {
		case "os.Create", "os.WriteFile":
			return true, true, calleeName(call) + " truncates"
		case "os.CreateTemp":
			return true, true, "unique name"
		case "os.OpenFile", "slot:DB.openLTXFile", "ls.defaultOpenLTXFile":
			fl, okf := constInt(refArgs(call)[1])
			if !okf {
				// flags forwarded by a wrapper: decided at the wrapper's callers
				return false, false, ""
			}
			if fl&oExcl != 0 {
				return true, false, "opened with O_EXCL: a file left by a killed run makes every later attempt fail"
			}
			if fl&oCreate != 0 && fl&oTrunc == 0 {
				return true, false, "created without O_TRUNC: bytes of a longer leftover survive behind the new content"
			}
			return true, true, "O_CREATE|O_TRUNC without O_EXCL"
		}
		// a producer helper of P: look at the opener of its path parameter
		if h := call.Common().StaticCallee(); h != nil && depth < 2 && c.P.InP(h) {
			for _, k := range calls(h) {
				if path, creates, ok := openerInfo(k); ok && creates && (path == nil || isParamValue(path)) {
					if d, okk, why := check(k, depth+1); d {
						return true, okk, fnName(h) + ": " + why
					}
				}
			}
		}
		return false, false, ""
	}
	decided, ok, why := check(open, 0)
	if !decided {
		return // not a file-creating opener this rule understands (covered by R6/R1)
	}
	c.check(ok, rule, fnName(fn)+": staging file "+shortExpr(rs.Src)+" is opened so that a leftover is replaced", c.pos(open), why, why)
}

func isParamValue(v ssa.Value) bool {
	for _, o := range origins(v) {
		if _, ok := o.(*ssa.Parameter); ok {
			return true
		}
	}
	return false
}

// createTruncRule: a file opened for writing with O_CREATE under a deterministic name
// replaces what a previous (failed or killed) run left there: O_TRUNC, or O_APPEND for
// logs, or O_EXCL for names that are unique by construction.  Without it the stale tail
// of a longer leftover survives behind the new content.
func createTruncRule(c *Ctx, rule string) {
	oWronly, oRdwr, oAppend, oCreate, oExcl, oTrunc := osOpenFlags()
	n := 0
	for _, fn := range c.P.ProdFuncs() {
		for _, call := range callsTo(fn, nameIs("os.OpenFile")) {
			fl, ok := constInt(refArgs(call)[1])
			if !ok || fl&oCreate == 0 || fl&(oWronly|oRdwr) == 0 {
				continue
			}
			n++
			c.check(fl&(oTrunc|oAppend|oExcl) != 0, rule, fnName(fn)+": os.OpenFile(O_CREATE, write) replaces or appends to an existing file explicitly", c.pos(call), "O_TRUNC, O_APPEND or O_EXCL present",
				"a file is created for writing without O_TRUNC: the tail of a longer leftover of an earlier, failed attempt stays behind the new content (for a WAL being reassembled: valid frames of a later state)")
		}
	}
	c.floor(rule, n, 1, "os.OpenFile(O_CREATE|write) sites with constant flags")
}
