package main

// Rule-level helpers shared by the property files.

import (
	"fmt"
	"go/token"
	"go/types"
	"strings"

	"golang.org/x/tools/go/ssa"
)

// ---------------------------------------------------------------------------
// more value matchers

// vU32At matches binary.<order>.Uint32(buf[off:]) (also Uint16/Uint64 through
// the method name given).
func vIntAt(method string, buf VM, off int64) VM {
	return anyOrigin(func(v ssa.Value) bool {
		c, ok := v.(*ssa.Call)
		if !ok {
			return false
		}
		name := calleeName(c)
		if !strings.HasSuffix(name, "."+method) || !strings.Contains(name, "binary") && !strings.Contains(name, "ByteOrder") {
			return false
		}
		args := c.Common().Args
		if len(args) == 0 {
			return false
		}
		sl, ok := args[len(args)-1].(*ssa.Slice)
		if !ok {
			return false
		}
		lo := int64(0)
		if sl.Low != nil {
			n, ok := constInt(sl.Low)
			if !ok {
				return false
			}
			lo = n
		}
		if lo != off {
			return false
		}
		return buf == nil || buf(sl.X) || sliceBase(buf)(sl.X)
	})
}

func vU32At(buf VM, off int64) VM { return vIntAt("Uint32", buf, off) }

// sliceBase matches a value that is (a slice of)* something matching m.
func sliceBase(m VM) VM {
	var f VM
	f = func(v ssa.Value) bool {
		if m(v) {
			return true
		}
		for _, o := range origins(v) {
			if o != v && m(o) {
				return true
			}
			if sl, ok := o.(*ssa.Slice); ok {
				if f(sl.X) {
					return true
				}
			}
		}
		return false
	}
	return f
}

// vLenOf matches len(x) with x matching m (through slicing).
func vLenOf(m VM) VM {
	return anyOrigin(func(v ssa.Value) bool {
		c, ok := v.(*ssa.Call)
		if !ok {
			return false
		}
		b, ok := c.Call.Value.(*ssa.Builtin)
		if !ok || b.Name() != "len" || len(c.Call.Args) != 1 {
			return false
		}
		return m == nil || sliceBase(m)(c.Call.Args[0])
	})
}

// vConvOf looks through arithmetic-neutral conversions already handled by
// origins; provided for readability.
func vThrough(m VM) VM { return anyOrigin(m) }

// vGlobal matches a load of the named package-level variable ("io.EOF").
func vGlobal(name string) VM {
	return anyOrigin(func(v ssa.Value) bool {
		u, ok := v.(*ssa.UnOp)
		if !ok || u.Op != token.MUL {
			return false
		}
		g, ok := u.X.(*ssa.Global)
		return ok && shortName(g.String()) == name
	})
}

// vConstStr matches a string constant.
func vConstStr(s string) VM {
	return anyOrigin(func(v ssa.Value) bool {
		x, ok := constString(v)
		return ok && x == s
	})
}

func vConstBool(b bool) VM {
	return anyOrigin(func(v ssa.Value) bool {
		c, ok := v.(*ssa.Const)
		if !ok || c.Value == nil {
			return false
		}
		return c.Value.String() == fmt.Sprint(b)
	})
}

// ---------------------------------------------------------------------------
// returns

// errOperand returns the trailing error operand of a Return (nil if the
// function has no error result).
func errOperand(r *ssa.Return) ssa.Value {
	sig := r.Parent().Signature
	i := errResultIndex(sig)
	if i < 0 || i >= len(r.Results) {
		return nil
	}
	return r.Results[i]
}

// nonNilMaker reports whether v is, by construction, a non-nil error.
func nonNilMaker(v ssa.Value) bool {
	switch x := v.(type) {
	case *ssa.MakeInterface:
		return true
	case *ssa.Call:
		switch calleeName(x) {
		case "fmt.Errorf", "errors.New", "ls.NewLTXError", "context.Cause":
			return true
		}
	case *ssa.UnOp:
		if x.Op == token.MUL {
			if g, ok := x.X.(*ssa.Global); ok {
				// sentinel error variables (io.EOF, ErrNoSnapshots, ...)
				if isErrorType(g.Type().(*types.Pointer).Elem()) {
					return true
				}
			}
		}
	}
	return false
}

// canSucceed reports whether Return r may return a nil error: some origin of
// its error operand is nil, or of unknown nil-ness and not proven non-nil by
// a dominating `!= nil` branch.
func canSucceed(r *ssa.Return) bool {
	v := errOperand(r)
	if v == nil {
		return true
	}
	for _, o := range errOrigins(v) {
		if isNilConst(o) {
			return true
		}
		if nonNilMaker(o) {
			continue
		}
		// unknown value: non-nil only if r is reachable solely through o != nil
		oo := o
		ok, n := guardedBy(r, cmpFact(func(x ssa.Value) bool { return x == oo }, token.NEQ, vNil(), "err != nil"))
		if n > 0 && ok {
			continue
		}
		return true
	}
	return false
}

// successReturns lists the returns of fn that may report success.
func successReturns(fn *ssa.Function) []*ssa.Return {
	var out []*ssa.Return
	for _, r := range returns(fn) {
		if canSucceed(r) {
			out = append(out, r)
		}
	}
	return out
}

// ---------------------------------------------------------------------------
// guard obligations

// Site is something whose reachability is constrained.
type Site struct {
	In   ssa.Instruction
	Desc string
}

// requireGuard records one obligation: site is unreachable once every edge
// carrying one of the alternative facts is removed.
func (c *Ctx) requireGuard(rule string, fn *ssa.Function, s Site, alts ...FP) bool {
	var descs []string
	for _, a := range alts {
		descs = append(descs, a.Desc)
	}
	fact := strings.Join(descs, " OR ")
	construct := fmt.Sprintf("%s: %s requires [%s]", fnName(fn), s.Desc, fact)
	ok, n := guardedBy(s.In, alts...)
	if n == 0 {
		c.fail(rule, construct, c.pos(s.In), "no branch establishing the required fact exists in "+fnName(fn))
		return false
	}
	if !ok {
		c.fail(rule, construct, c.pos(s.In),
			fmt.Sprintf("site is reachable from entry without passing a branch edge on which the fact holds (%d candidate edge(s) removed)", n),
			witnessPath(c.P, fn, s.In.Block(), cutEdges(fn, alts...))...)
		return false
	}
	c.ok(rule, construct, c.pos(s.In), fmt.Sprintf("unreachable after removing %d fact edge(s)", n))
	return true
}

func cutEdges(fn *ssa.Function, alts ...FP) []Edge {
	var cut []Edge
	for _, p := range alts {
		cut = append(cut, factEdges(fn, p)...)
	}
	return cut
}

// witnessPath renders one entry-to-target block path avoiding the cut edges.
func witnessPath(p *Prog, fn *ssa.Function, target *ssa.BasicBlock, cut []Edge) []string {
	if len(fn.Blocks) == 0 {
		return nil
	}
	isCut := func(b *ssa.BasicBlock, i int) bool {
		for _, e := range cut {
			if e.From == b && e.Succ == i {
				return true
			}
		}
		return false
	}
	prev := map[*ssa.BasicBlock]*ssa.BasicBlock{fn.Blocks[0]: nil}
	q := []*ssa.BasicBlock{fn.Blocks[0]}
	for len(q) > 0 {
		b := q[0]
		q = q[1:]
		if b == target {
			break
		}
		for i, s := range b.Succs {
			if isCut(b, i) {
				continue
			}
			if _, ok := prev[s]; !ok {
				prev[s] = b
				q = append(q, s)
			}
		}
	}
	if _, ok := prev[target]; !ok {
		return nil
	}
	var rev []*ssa.BasicBlock
	for b := target; b != nil; b = prev[b] {
		rev = append(rev, b)
	}
	var out []string
	for i := len(rev) - 1; i >= 0; i-- {
		b := rev[i]
		pos := "-"
		for _, in := range b.Instrs {
			if in.Pos().IsValid() {
				pos = p.Pos(in.Pos())
				break
			}
		}
		out = append(out, fmt.Sprintf("block %d (%s) %s", b.Index, b.Comment, pos))
	}
	if len(out) > 24 {
		out = append(out[:12], append([]string{"..."}, out[len(out)-11:]...)...)
	}
	return out
}

// storesToField lists Store instructions in fn (and closures) writing the
// named field (Type.field).
func storesToField(fn *ssa.Function, field string) []*ssa.Store {
	var out []*ssa.Store
	for _, f := range withClosures(fn) {
		for _, b := range f.Blocks {
			for _, in := range b.Instrs {
				st, ok := in.(*ssa.Store)
				if !ok {
					continue
				}
				if fa, ok := st.Addr.(*ssa.FieldAddr); ok && fieldAddrName(fa) == field {
					out = append(out, st)
				}
			}
		}
	}
	return out
}

// dominates reports whether instruction a dominates instruction b.
func dominates(a, b ssa.Instruction) bool {
	if a.Block() == b.Block() {
		return instrIndex(a) <= instrIndex(b)
	}
	return a.Block().Dominates(b.Block())
}

// argOf returns argument i of a call counting the receiver of a static method
// call as argument 0 (invoke-mode calls have no receiver in Args).
func argOf(c ssa.CallInstruction, i int) ssa.Value {
	a := c.Common().Args
	if i < len(a) {
		return a[i]
	}
	return nil
}

// namedArg returns the argument bound to the parameter called name.
func namedArg(c ssa.CallInstruction, name string) ssa.Value {
	cc := c.Common()
	sig := cc.Signature()
	off := 0
	if !cc.IsInvoke() && sig.Recv() != nil {
		off = 1
	}
	for i := 0; i < sig.Params().Len(); i++ {
		if sig.Params().At(i).Name() == name && i+off < len(cc.Args) {
			return cc.Args[i+off]
		}
	}
	return nil
}

// phiEdgeBlocks returns the predecessor blocks from which phi receives a value
// matching m.
func phiEdgeBlocks(phi *ssa.Phi, m VM) []*ssa.BasicBlock {
	var out []*ssa.BasicBlock
	for i, e := range phi.Edges {
		if m(e) {
			out = append(out, phi.Block().Preds[i])
		}
	}
	return out
}

// lastInstr returns the terminator of a block.
func lastInstr(b *ssa.BasicBlock) ssa.Instruction { return b.Instrs[len(b.Instrs)-1] }

// debugRefName returns the source variable name a value is bound to (via
// DebugRef instructions of ssa.GlobalDebug), or "".
func debugRefNames(v ssa.Value) []string {
	var out []string
	refs := v.Referrers()
	if refs == nil {
		return nil
	}
	for _, r := range *refs {
		if d, ok := r.(*ssa.DebugRef); ok && !d.IsAddr {
			if o := d.Object(); o != nil {
				out = append(out, o.Name())
			}
		}
	}
	return out
}
