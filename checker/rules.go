package main

// Rule-level helpers shared by the property files.

import (
	"fmt"
	"go/token"
	"go/types"
	"strings"

	"golang.org/x/tools/go/ssa"
)

// ---------------------------------------------------------------------------
// more value matchers

// vU32At matches binary.<order>.Uint32(buf[off:]) (also Uint16/Uint64 through
// the method name given).
func vIntAt(method string, buf VM, off int64) VM {
	return anyOrigin(func(v ssa.Value) bool {
		c, ok := v.(*ssa.Call)
		if !ok {
			return false
		}
		name := calleeName(c)
		if !strings.HasSuffix(name, "."+method) || !strings.Contains(name, "binary") && !strings.Contains(name, "ByteOrder") {
			return false
		}
		args := c.Common().Args
		if len(args) == 0 {
			return false
		}
		sl, ok := args[len(args)-1].(*ssa.Slice)
		if !ok {
			return false
		}
		lo := int64(0)
		if sl.Low != nil {
			n, ok := constInt(sl.Low)
			if !ok {
				return false
			}
			lo = n
		}
		if lo != off {
			return false
		}
		return buf == nil || buf(sl.X) || sliceBase(buf)(sl.X)
	})
}

func vU32At(buf VM, off int64) VM { return vIntAt("Uint32", buf, off) }

// sliceBase matches a value that is (a slice of)* something matching m.
func sliceBase(m VM) VM {
	var f VM
	f = func(v ssa.Value) bool {
		if m(v) {
			return true
		}
		for _, o := range origins(v) {
			if o != v && m(o) {
				return true
			}
			if sl, ok := o.(*ssa.Slice); ok {
				if f(sl.X) {
					return true
				}
			}
		}
		return false
	}
	return f
}

// vLenOf matches len(x) with x matching m (through slicing).
func vLenOf(m VM) VM {
	return anyOrigin(func(v ssa.Value) bool {
		c, ok := v.(*ssa.Call)
		if !ok {
			return false
		}
		b, ok := c.Call.Value.(*ssa.Builtin)
		if !ok || b.Name() != "len" || len(c.Call.Args) != 1 {
			return false
		}
		return m == nil || sliceBase(m)(c.Call.Args[0])
	})
}

// vConvOf looks through arithmetic-neutral conversions already handled by
// origins; provided for readability.
func vThrough(m VM) VM { return anyOrigin(m) }

// vGlobal matches a load of the named package-level variable ("io.EOF").
func vGlobal(name string) VM {
	return anyOrigin(func(v ssa.Value) bool {
		u, ok := v.(*ssa.UnOp)
		if !ok || u.Op != token.MUL {
			return false
		}
		g, ok := u.X.(*ssa.Global)
		return ok && shortName(g.String()) == name
	})
}

// vConstStr matches a string constant.
func vConstStr(s string) VM {
	return anyOrigin(func(v ssa.Value) bool {
		x, ok := constString(v)
		return ok && x == s
	})
}

func vConstBool(b bool) VM {
	return anyOrigin(func(v ssa.Value) bool {
		c, ok := v.(*ssa.Const)
		if !ok || c.Value == nil {
			return false
		}
		return c.Value.String() == fmt.Sprint(b)
	})
}

// ---------------------------------------------------------------------------
// returns

// errOperand returns the trailing error operand of a Return (nil if the
// function has no error result).
func errOperand(r *ssa.Return) ssa.Value {
	sig := r.Parent().Signature
	i := errResultIndex(sig)
	if i < 0 || i >= len(r.Results) {
		return nil
	}
	return retOperand(r, i)
}

// retOperand resolves result operand i of a Return.  In functions with defers
// results are spilled to cells (`*res = v; rundefers; t = *res; return t`); the
// operand is then the value last stored to the cell in the returning block.
func retOperand(r *ssa.Return, i int) ssa.Value {
	if i >= len(r.Results) {
		return nil
	}
	v := r.Results[i]
	u, ok := v.(*ssa.UnOp)
	if !ok || u.Op != token.MUL {
		return v
	}
	al, ok := u.X.(*ssa.Alloc)
	if !ok || u.Block() != r.Block() {
		return v
	}
	ins := r.Block().Instrs
	for k := instrIndex(u) - 1; k >= 0; k-- {
		if st, ok := ins[k].(*ssa.Store); ok && st.Addr == al {
			return st.Val
		}
	}
	return v
}

// nonNilMaker reports whether v is, by construction, a non-nil error.
func nonNilMaker(v ssa.Value) bool {
	switch x := v.(type) {
	case *ssa.MakeInterface:
		return true
	case *ssa.Call:
		switch calleeName(x) {
		case "fmt.Errorf", "errors.New", "ls.NewLTXError", "context.Cause":
			return true
		}
	case *ssa.UnOp:
		if x.Op == token.MUL {
			if g, ok := x.X.(*ssa.Global); ok {
				// sentinel error variables (io.EOF, ErrNoSnapshots, ...)
				if isErrorType(g.Type().(*types.Pointer).Elem()) {
					return true
				}
			}
		}
	}
	return false
}

// canSucceed reports whether Return r may return a nil error: some origin of
// its error operand is nil, or of unknown nil-ness and not proven non-nil by
// a dominating `!= nil` branch.
func canSucceed(r *ssa.Return) bool {
	// The guard queries below can come back here through virtually inlined
	// helpers (call-site guards -> callee-established facts -> canSucceed);
	// a re-entrant question is answered conservatively ("may succeed").
	if canSucceedBusy[r] {
		return true
	}
	canSucceedBusy[r] = true
	defer delete(canSucceedBusy, r)
	return canSucceed1(r)
}

var canSucceedBusy = map[*ssa.Return]bool{}

func canSucceed1(r *ssa.Return) bool {
	v := errOperand(r)
	if v == nil {
		return true
	}
	// the operand itself was tested: `if err != nil { return ..., err }`
	if _, isConst := v.(*ssa.Const); !isConst {
		vv := v
		if g, n := guardedBy(r, cmpFact(func(x ssa.Value) bool { return x == vv }, token.NEQ, vNil(), "")); n > 0 && g {
			return false
		}
	}
	// `err = f(); if err != nil { return ..., err }` with err a result cell:
	// the operand is a load of the cell; it is non-nil when the return is
	// reachable only through a `!= nil` test on a load of the same cell.
	if u, ok := v.(*ssa.UnOp); ok && u.Op == token.MUL {
		if cell := cellOf(u.X); cell != nil {
			sameCell := func(x ssa.Value) bool {
				l, ok := x.(*ssa.UnOp)
				return ok && l.Op == token.MUL && cellOf(l.X) == cell
			}
			if g, n := guardedBy(r, cmpFact(sameCell, token.NEQ, vNil(), "")); n > 0 && g {
				return false
			}
		}
	}
	for _, o := range errOrigins(v) {
		if isNilConst(o) {
			return true
		}
		if nonNilMaker(o) {
			continue
		}
		// the parameter of a virtually inlined helper stands for the arguments at its
		// call sites, which are among the origins already
		if p, isP := o.(*ssa.Parameter); isP && paramOrigins(p, 0) != nil {
			continue
		}
		// unknown value: non-nil only if r is reachable solely through o != nil
		oo := o
		ok, n := guardedBy(r, cmpFact(func(x ssa.Value) bool { return x == oo }, token.NEQ, vNil(), "err != nil"))
		if n > 0 && ok {
			continue
		}
		return true
	}
	return false
}

// successReturns lists the returns of fn that may report success.
func successReturns(fn *ssa.Function) []*ssa.Return {
	var out []*ssa.Return
	for _, r := range returns(fn) {
		if canSucceed(r) {
			out = append(out, r)
		}
	}
	return out
}

// ---------------------------------------------------------------------------
// guard obligations

// Site is something whose reachability is constrained.
type Site struct {
	In   ssa.Instruction
	Desc string
}

// VSite is a site with its call string.
type VSite struct {
	Site
	// Ctx is the call string (outermost first) through virtually inlined
	// helpers that leads to In; empty when In lies in the rule's function.
	Ctx []ssa.CallInstruction
}

// Call returns the site's instruction as a call.
func (s VSite) Call() ssa.CallInstruction { c, _ := s.In.(ssa.CallInstruction); return c }

// guardedSite is guardedBy for a site with a call-string context: the guard
// may sit around the site itself or around any call on the string leading to it.
func guardedSite(s VSite, alts ...FP) (bool, int) {
	if len(s.Ctx) == 0 {
		return guardedBy(s.In, alts...)
	}
	total := 0
	chain := []ssa.Instruction{s.In}
	for i := len(s.Ctx) - 1; i >= 0; i-- {
		chain = append(chain, s.Ctx[i])
	}
	for _, in := range chain {
		ok, n := guardedLocal(in, 0, alts...)
		total += n
		if ok {
			return true, total
		}
	}
	return false, total
}

// callSitesV lists the calls matching pred in fn and, with their call strings,
// in the helpers virtually inlined into fn (one entry per call string).
func callSitesV(fn *ssa.Function, pred func(string) bool) []VSite {
	var out []VSite
	var walk func(f *ssa.Function, ctx []ssa.CallInstruction, d int)
	walk = func(f *ssa.Function, ctx []ssa.CallInstruction, d int) {
		for _, g := range []*ssa.Function{f} {
			for _, k := range calls(g) {
				if pred(calleeName(k)) {
					out = append(out, VSite{Site: Site{In: k, Desc: calleeName(k)}, Ctx: append([]ssa.CallInstruction(nil), ctx...)})
					continue
				}
				if h := k.Common().StaticCallee(); h != nil && d < 3 && h != f && isNewHelper(h) {
					walk(h, append(append([]ssa.CallInstruction(nil), ctx...), k), d+1)
				}
			}
		}
	}
	walk(fn, nil, 0)
	return out
}

// requireGuard records one obligation: site is unreachable once every edge
// carrying one of the alternative facts is removed.
func (c *Ctx) requireGuard(rule string, fn *ssa.Function, s Site, alts ...FP) bool {
	return c.requireGuardV(rule, fn, VSite{Site: s}, alts...)
}

// requireGuardV is requireGuard for a site reached through a call string.
func (c *Ctx) requireGuardV(rule string, fn *ssa.Function, s VSite, alts ...FP) bool {
	var descs []string
	for _, a := range alts {
		descs = append(descs, a.Desc)
	}
	fact := strings.Join(descs, " OR ")
	construct := fmt.Sprintf("%s: %s requires [%s]", fnName(fn), s.Desc, fact)
	ok, n := guardedSite(s, alts...)
	if n == 0 {
		c.fail(rule, construct, c.pos(s.In), "no branch establishing the required fact exists in "+fnName(fn))
		return false
	}
	if !ok {
		c.fail(rule, construct, c.pos(s.In),
			fmt.Sprintf("site is reachable from entry without passing a branch edge on which the fact holds (%d candidate edge(s) removed)", n),
			witnessPath(c.P, fn, s.In.Block(), cutEdges(fn, alts...))...)
		return false
	}
	c.ok(rule, construct, c.pos(s.In), fmt.Sprintf("unreachable after removing %d fact edge(s)", n))
	return true
}

func cutEdges(fn *ssa.Function, alts ...FP) []Edge {
	return factEdgesAlts(fn, 0, alts...)
}

// witnessPath renders one entry-to-target block path avoiding the cut edges.
func witnessPath(p *Prog, fn *ssa.Function, target *ssa.BasicBlock, cut []Edge) []string {
	if len(fn.Blocks) == 0 {
		return nil
	}
	isCut := func(b *ssa.BasicBlock, i int) bool {
		for _, e := range cut {
			if e.From == b && e.Succ == i {
				return true
			}
		}
		return false
	}
	prev := map[*ssa.BasicBlock]*ssa.BasicBlock{fn.Blocks[0]: nil}
	q := []*ssa.BasicBlock{fn.Blocks[0]}
	for len(q) > 0 {
		b := q[0]
		q = q[1:]
		if b == target {
			break
		}
		for i, s := range b.Succs {
			if isCut(b, i) {
				continue
			}
			if _, ok := prev[s]; !ok {
				prev[s] = b
				q = append(q, s)
			}
		}
	}
	if _, ok := prev[target]; !ok {
		return nil
	}
	var rev []*ssa.BasicBlock
	for b := target; b != nil; b = prev[b] {
		rev = append(rev, b)
	}
	var out []string
	for i := len(rev) - 1; i >= 0; i-- {
		b := rev[i]
		pos := "-"
		for _, in := range b.Instrs {
			if in.Pos().IsValid() {
				pos = p.Pos(in.Pos())
				break
			}
		}
		out = append(out, fmt.Sprintf("block %d (%s) %s", b.Index, b.Comment, pos))
	}
	if len(out) > 24 {
		out = append(out[:12], append([]string{"..."}, out[len(out)-11:]...)...)
	}
	return out
}

// storesToField lists Store instructions in fn (and closures) writing the
// named field (Type.field).
func storesToField(fn *ssa.Function, field string) []*ssa.Store {
	var out []*ssa.Store
	for _, f := range withClosures(fn) {
		for _, b := range f.Blocks {
			for _, in := range b.Instrs {
				st, ok := in.(*ssa.Store)
				if !ok {
					continue
				}
				if fa, ok := st.Addr.(*ssa.FieldAddr); ok && fieldAddrName(fa) == field {
					out = append(out, st)
				}
			}
		}
	}
	return out
}

// dominates reports whether instruction a dominates instruction b.
func dominates(a, b ssa.Instruction) bool {
	if a.Parent() != b.Parent() {
		// one of the two sits in a virtually inlined helper of the other's function
		if lb := liftTo(a.Parent(), b); lb != nil {
			return dominates(a, lb)
		}
		if la := liftToMust(b.Parent(), a); la != nil {
			return dominates(la, b)
		}
		return false
	}
	if a.Block() == b.Block() {
		return instrIndex(a) <= instrIndex(b)
	}
	return a.Block().Dominates(b.Block())
}

// argOf returns argument i of a call counting the receiver of a static method
// call as argument 0 (invoke-mode calls have no receiver in Args).
func argOf(c ssa.CallInstruction, i int) ssa.Value {
	a := c.Common().Args
	if i < len(a) {
		return a[i]
	}
	return nil
}

// namedArg returns the argument bound to the parameter called name.
func namedArg(c ssa.CallInstruction, name string) ssa.Value {
	cc := c.Common()
	sig := cc.Signature()
	// a static callee known on the reference tree: the parameter that had this name there
	if !cc.IsInvoke() {
		if i := refParamIndex(cc.StaticCallee(), name); i >= 0 && i < len(cc.Args) {
			return cc.Args[i]
		}
	}
	off := 0
	if !cc.IsInvoke() && sig.Recv() != nil {
		off = 1
	}
	for i := 0; i < sig.Params().Len(); i++ {
		if sig.Params().At(i).Name() == name && i+off < len(cc.Args) {
			return cc.Args[i+off]
		}
	}
	return nil
}

// phiEdgeBlocks returns the predecessor blocks from which phi receives a value
// matching m.
func phiEdgeBlocks(phi *ssa.Phi, m VM) []*ssa.BasicBlock {
	var out []*ssa.BasicBlock
	for i, e := range phi.Edges {
		if m(e) {
			out = append(out, phi.Block().Preds[i])
		}
	}
	return out
}

// lastInstr returns the terminator of a block.
func lastInstr(b *ssa.BasicBlock) ssa.Instruction { return b.Instrs[len(b.Instrs)-1] }

// debugRefName returns the source variable name a value is bound to (via
// DebugRef instructions of ssa.GlobalDebug), or "".
func debugRefNames(v ssa.Value) []string {
	var out []string
	refs := v.Referrers()
	if refs == nil {
		return nil
	}
	for _, r := range *refs {
		if d, ok := r.(*ssa.DebugRef); ok && !d.IsAddr {
			if o := d.Object(); o != nil {
				out = append(out, o.Name())
			}
		}
	}
	return out
}

// ---------------------------------------------------------------------------
// composite literals, phi selection, loops

// compositeFields returns the values stored into the fields of the struct
// value v when v is built as a composite literal (a local Alloc filled by
// field stores and then loaded, or passed by address).
func compositeFields(v ssa.Value) map[string]ssa.Value {
	var al *ssa.Alloc
	switch x := v.(type) {
	case *ssa.Alloc:
		al = x
	case *ssa.UnOp:
		if x.Op == token.MUL {
			al, _ = x.X.(*ssa.Alloc)
		}
	case *ssa.MakeInterface:
		return compositeFields(x.X)
	case *ssa.Call:
		// literal built by a virtually inlined constructor helper: its fields,
		// with the helper's parameters replaced by this call's arguments
		h := x.Call.StaticCallee()
		if !isNewHelper(h) || h.Signature.Results().Len() != 1 {
			return nil
		}
		var out map[string]ssa.Value
		for _, r := range returns(h) {
			if len(r.Results) != 1 {
				return nil
			}
			f := compositeFields(retOperand(r, 0))
			if f == nil || out != nil {
				return nil // not a literal, or more than one returning literal
			}
			out = f
		}
		for k, fv := range out {
			if p, isP := fv.(*ssa.Parameter); isP {
				for i, hp := range h.Params {
					if hp == p && i < len(x.Call.Args) {
						out[k] = x.Call.Args[i]
					}
				}
			}
		}
		return out
	}
	if al == nil {
		return nil
	}
	out := map[string]ssa.Value{}
	for _, r := range *al.Referrers() {
		fa, ok := r.(*ssa.FieldAddr)
		if !ok {
			continue
		}
		for _, rr := range *fa.Referrers() {
			if st, ok := rr.(*ssa.Store); ok && st.Addr == fa {
				name := fieldAddrName(fa)
				if i := strings.IndexByte(name, '.'); i >= 0 {
					name = name[i+1:]
				}
				out[name] = st.Val
			}
		}
	}
	return out
}

// Incoming is one way a value can be selected: leaf value Val arrives over the
// CFG edge Pred -> Blk (nil blocks when the value is not a phi).
type Incoming struct {
	Val       ssa.Value
	Pred, Blk *ssa.BasicBlock
	Ret       *ssa.Return // the value is returned here by a virtually inlined helper
}

// hasFact reports whether fp holds whenever the value is selected this way.
func (inc Incoming) hasFact(fp FP) bool {
	if inc.Ret != nil {
		ok, n := guardedBy(inc.Ret, fp)
		return n > 0 && ok
	}
	return edgeHasFact(inc.Pred, inc.Blk, fp)
}

// incomings lists the ways a phi value can be selected (one level: a nested
// phi is reported as a leaf with the edge over which it arrives).  The result
// of a virtually inlined single-result helper is expanded into its returns.
func incomings(v ssa.Value) []Incoming {
	if call, ok := v.(*ssa.Call); ok {
		if h := call.Call.StaticCallee(); isNewHelper(h) && h.Signature.Results().Len() == 1 {
			var out []Incoming
			for _, r := range returns(h) {
				if len(r.Results) == 1 {
					out = append(out, Incoming{Val: retOperand(r, 0), Ret: r})
				}
			}
			if len(out) > 0 {
				return out
			}
		}
	}
	if incs := cellIncomings(v); incs != nil {
		return incs
	}
	phi, ok := v.(*ssa.Phi)
	if !ok {
		return []Incoming{{Val: v}}
	}
	var out []Incoming
	for i, e := range phi.Edges {
		out = append(out, Incoming{Val: e, Pred: phi.Block().Preds[i], Blk: phi.Block()})
	}
	return out
}

// edgeHasFact reports whether fact fp holds whenever control flows pred -> blk.
func edgeHasFact(pred, blk *ssa.BasicBlock, fp FP) bool {
	if pred == nil {
		return false
	}
	if ifi, ok := lastInstr(pred).(*ssa.If); ok {
		for i, s := range pred.Succs {
			if s == blk && fp.holds(edgeFact(ifi, i)) {
				// both successors equal is impossible for a real If
				return true
			}
		}
	}
	ok, n := guardedBy(lastInstr(pred), fp)
	return n > 0 && ok
}

// Loop describes a counted loop `for v := init; v <= limit; v++`.
type Loop struct {
	Phi    *ssa.Phi
	Init   ssa.Value
	Inc    *ssa.BinOp
	Header *ssa.BasicBlock
	Cond   *ssa.If
	Body   *ssa.BasicBlock // successor taken while the loop continues
	Latch  *ssa.BasicBlock // block computing v+1
}

// countedLoops finds the unit-stride counted loops of fn.
func countedLoops(fn *ssa.Function) []Loop {
	var out []Loop
	for _, b := range fn.Blocks {
		for _, in := range b.Instrs {
			phi, ok := in.(*ssa.Phi)
			if !ok {
				break
			}
			if len(phi.Edges) != 2 {
				continue
			}
			for i := 0; i < 2; i++ {
				inc, ok := phi.Edges[i].(*ssa.BinOp)
				if !ok || inc.Op != token.ADD || inc.X != phi || !vConstInt(1)(inc.Y) {
					continue
				}
				l := Loop{Phi: phi, Init: phi.Edges[1-i], Inc: inc, Header: b, Latch: inc.Block()}
				if ifi, ok := lastInstr(b).(*ssa.If); ok {
					l.Cond = ifi
					// body = successor from which the latch is reachable
					for si, s := range b.Succs {
						r := reachable(fn, s, []Edge{})
						if r[l.Latch] && !(si == 1 && reachable(fn, b.Succs[0], nil)[l.Latch]) {
							l.Body = s
							break
						}
					}
				}
				out = append(out, l)
			}
		}
	}
	return out
}

// fieldAddrChain matches an address &base.f1.f2... given as "T1.f1","T2.f2".
func vFieldAddr(names ...string) VM {
	return func(v ssa.Value) bool {
		for i := len(names) - 1; i >= 0; i-- {
			fa, ok := v.(*ssa.FieldAddr)
			if !ok || fieldAddrName(fa) != names[i] {
				return false
			}
			v = fa.X
		}
		return true
	}
}

// vFieldPath matches a load through a chain of fields, e.g.
// vFieldPath("syncExecutor.pos", "Pos.TXID").
func vFieldPath(names ...string) VM {
	return anyOrigin(func(v ssa.Value) bool {
		switch x := v.(type) {
		case *ssa.UnOp:
			return x.Op == token.MUL && vFieldAddr(names...)(x.X)
		case *ssa.Field:
			if len(names) == 0 || fieldName(x.X.Type(), x.Field) != names[len(names)-1] {
				return false
			}
			if len(names) == 1 {
				return true
			}
			return vFieldPath(names[:len(names)-1]...)(x.X)
		}
		return false
	})
}

// vCall matches a call value to the named callee whose leading arguments
// (receiver first for static method calls) match args (nil = any).
func vCall(name string, args ...VM) VM {
	return anyOrigin(func(v ssa.Value) bool {
		c, ok := v.(*ssa.Call)
		if !ok || calleeName(c) != name {
			return false
		}
		a := c.Call.Args
		for i, m := range args {
			if m == nil {
				continue
			}
			if i >= len(a) || !m(a[i]) {
				return false
			}
		}
		return true
	})
}

// strictlyBefore is the fact "x is strictly before t": the true edge of
// x.Before(t) or of t.After(x).  (The false edge of x.After(t) is only <=.)
func strictlyBefore(x, t VM, desc string) []FP {
	return []FP{
		truthFact(vCall("(time.Time).Before", x, t), true, desc),
		truthFact(vCall("(time.Time).After", t, x), true, desc+" (as t.After(x))"),
	}
}

// notAfter is the fact "x <= t".
func notAfter(x, t VM, desc string) []FP {
	return []FP{
		truthFact(vCall("(time.Time).After", x, t), false, desc),
		truthFact(vCall("(time.Time).Before", t, x), false, desc),
		truthFact(vCall("(time.Time).Before", x, t), true, desc),
		truthFact(vCall("(time.Time).After", t, x), true, desc),
	}
}

// isZeroTime is the fact "t.IsZero()".
func isZeroTime(t VM, desc string) FP {
	return truthFact(vCall("(time.Time).IsZero", t), true, desc)
}

// requireGuardAny is requireGuard with a slice of alternatives.
func (c *Ctx) requireGuardAny(rule string, fn *ssa.Function, s Site, desc string, alts []FP) bool {
	if len(alts) > 0 {
		alts[0].Desc = desc
		for i := 1; i < len(alts); i++ {
			alts[i].Desc = ""
		}
	}
	var descs []string
	for _, a := range alts {
		if a.Desc != "" {
			descs = append(descs, a.Desc)
		}
	}
	construct := fmt.Sprintf("%s: %s requires [%s]", fnName(fn), s.Desc, strings.Join(descs, " OR "))
	ok, n := guardedSite(VSite{Site: s}, alts...)
	if n == 0 {
		c.fail(rule, construct, c.pos(s.In), "no branch establishing the required fact exists in "+fnName(fn))
		return false
	}
	if !ok {
		c.fail(rule, construct, c.pos(s.In),
			fmt.Sprintf("site is reachable from entry without passing a branch edge on which the fact holds (%d candidate edge(s) removed)", n),
			witnessPath(c.P, fn, s.In.Block(), cutEdges(fn, alts...))...)
		return false
	}
	c.ok(rule, construct, c.pos(s.In), fmt.Sprintf("unreachable after removing %d fact edge(s)", n))
	return true
}

// reachableAvoiding is reachable() that additionally never enters the blocks
// in avoid.
func reachableAvoiding(fn *ssa.Function, from *ssa.BasicBlock, cut []Edge, avoid map[*ssa.BasicBlock]bool) map[*ssa.BasicBlock]bool {
	var extra []Edge
	for _, b := range fn.Blocks {
		for i, s := range b.Succs {
			if avoid[s] {
				extra = append(extra, Edge{b, i})
			}
		}
	}
	if from == nil && len(fn.Blocks) > 0 && avoid[fn.Blocks[0]] {
		return map[*ssa.BasicBlock]bool{}
	}
	if from != nil && avoid[from] {
		return map[*ssa.BasicBlock]bool{}
	}
	return reachable(fn, from, append(extra, cut...))
}
