package main

// Virtual inlining of helpers that are new relative to the reference tree
// (anchors.json): provenance crosses into and out of them, and facts
// established inside them count at their call sites.  Functions known on the
// reference tree keep their identity (rules name them explicitly).

import (
	"go/token"
	"go/types"
	"strings"

	"golang.org/x/tools/go/ssa"
)

var curProg *Prog
var refAnchors map[string]string

// isNewHelper reports whether fn is a production function that did not exist on
// the reference tree (an extracted helper), and is therefore inlined virtually.
func isNewHelper(fn *ssa.Function) bool {
	if fn == nil || curProg == nil || fn.Blocks == nil || len(refAnchors) == 0 {
		return false
	}
	root := fn
	for root.Parent() != nil {
		root = root.Parent()
	}
	if !curProg.InP(root) {
		return false
	}
	if root != fn {
		return false // closures are handled by their parent
	}
	_, known := refAnchors[fnName(root)]
	return !known
}

// interprocOrigins: the values a call to a new helper can return (result idx of
// the extract, or the single result).
func interprocOrigins(call *ssa.Call, ex *ssa.Extract, depth int) []ssa.Value {
	if depth > 400 {
		return nil
	}
	g := call.Call.StaticCallee()
	if !isNewHelper(g) || g == call.Parent() {
		return nil
	}
	idx := 0
	if ex != nil {
		idx = ex.Index
	} else if call.Call.Signature().Results().Len() != 1 {
		return nil
	}
	var out []ssa.Value
	for _, r := range returns(g) {
		if idx < len(r.Results) {
			out = append(out, retOperand(r, idx))
		}
	}
	if len(out) == 0 {
		return nil
	}
	return out
}

// paramOrigins: the arguments passed for a parameter of a new helper at all its
// production call sites.
func paramOrigins(par *ssa.Parameter, depth int) []ssa.Value {
	if depth > 400 {
		return nil
	}
	fn := par.Parent()
	if !isNewHelper(fn) && !isNewParam(par) {
		return nil
	}
	idx := -1
	for i, q := range fn.Params {
		if q == par {
			idx = i
		}
	}
	if idx < 0 {
		return nil
	}
	var out []ssa.Value
	for _, site := range callSitesOf(fn) {
		a := site.Common().Args
		if idx < len(a) {
			out = append(out, a[idx])
		}
	}
	return out
}

var callSiteCache = map[*ssa.Function][]ssa.CallInstruction{}

func callSitesOf(fn *ssa.Function) []ssa.CallInstruction {
	if s, ok := callSiteCache[fn]; ok {
		return s
	}
	var out []ssa.CallInstruction
	if curProg != nil {
		for _, g := range curProg.ProdFuncs() {
			for _, c := range calls(g) {
				if c.Common().StaticCallee() == fn {
					out = append(out, c)
				}
			}
		}
	}
	callSiteCache[fn] = out
	return out
}

// calleeEstablishes reports whether one of the fact patterns holds whenever the
// new helper h returns with its boolean result equal to truth, or with a nil
// error (isErr): every such return is cut by the patterns inside h, or returns
// a boolean expression that itself entails one of them.
func calleeEstablishes(h *ssa.Function, isErr bool, truth bool, alts []FP, depth int) bool {
	if !isNewHelper(h) || depth > 2 {
		return false
	}
	entails := func(v ssa.Value, t bool, d int) bool { return valueEntails(v, t, alts, d) }
	n := 0
	for _, r := range returns(h) {
		if isErr {
			if !canSucceed(r) {
				continue
			}
		} else {
			if len(r.Results) == 0 {
				continue
			}
			v := retOperand(r, 0)
			if k, ok := v.(*ssa.Const); ok && k.Value != nil {
				if (k.Value.String() == "true") != truth {
					continue
				}
			} else if entails(v, truth, 0) {
				n++
				continue
			}
		}
		g, k := guardedByDepth(r, depth+1, alts...)
		if !(k > 0 && g) {
			return false
		}
		n++
	}
	return n > 0
}

// deepFuncs returns fn, and the new helpers (virtually inlined) it calls, transitively (depth 3).
func deepFuncs(fn *ssa.Function) []*ssa.Function {
	seen := map[*ssa.Function]bool{fn: true}
	out := []*ssa.Function{fn}
	var walk func(f *ssa.Function, d int)
	walk = func(f *ssa.Function, d int) {
		if d > 3 {
			return
		}
		for _, g := range withClosures(f) {
			for _, c := range calls(g) {
				h := c.Common().StaticCallee()
				if h != nil && !seen[h] && isNewHelper(h) {
					seen[h] = true
					out = append(out, h)
					walk(h, d+1)
				}
				// a new top-level function handed over as a callback (what used to be a closure)
				for _, a := range c.Common().Args {
					if ct, ok := a.(*ssa.ChangeType); ok {
						a = ct.X
					}
					if hf, ok := a.(*ssa.Function); ok && !seen[hf] && isNewHelper(hf) {
						seen[hf] = true
						out = append(out, hf)
						walk(hf, d+1)
					}
				}
			}
		}
	}
	walk(fn, 0)
	return out
}

// callsToDeep is callsTo over fn and the helpers virtually inlined into it.
func callsToDeep(fn *ssa.Function, pred func(string) bool) []ssa.CallInstruction {
	var out []ssa.CallInstruction
	for _, f := range deepFuncs(fn) {
		out = append(out, callsTo(f, pred)...)
	}
	return out
}

// storesToFieldDeep is storesToField over fn and its virtually inlined helpers.
func storesToFieldDeep(fn *ssa.Function, field string) []*ssa.Store {
	var out []*ssa.Store
	for _, f := range deepFuncs(fn) {
		out = append(out, storesToField(f, field)...)
	}
	return out
}

// liftTo maps an instruction inside a virtually inlined helper to its (single)
// call site in fn, so that ordering questions can be asked in fn's CFG.
func liftTo(fn *ssa.Function, in ssa.Instruction) ssa.Instruction {
	for d := 0; d < 4 && in != nil && in.Parent() != fn; d++ {
		p := in.Parent()
		for p.Parent() != nil { // closure: lift to its creation point
			var mk ssa.Instruction
			for _, b := range p.Parent().Blocks {
				for _, x := range b.Instrs {
					if mc, ok := x.(*ssa.MakeClosure); ok && mc.Fn == p {
						mk = mc
					}
				}
			}
			if mk == nil {
				return nil
			}
			in, p = mk, mk.Parent()
			if p == fn {
				return in
			}
		}
		if !isNewHelper(p) {
			return nil
		}
		sites := callSitesOf(p)
		if len(sites) != 1 {
			return nil
		}
		in = sites[0]
	}
	if in != nil && in.Parent() == fn {
		return in
	}
	return nil
}

// At is the instruction that represents the virtual site in the rule's own
// function: the site itself, or the outermost call on its call string.
func (s VSite) At() ssa.Instruction {
	if len(s.Ctx) > 0 {
		return s.Ctx[0]
	}
	return s.In
}

// liftToMust is liftTo for the dominating side of an ordering question: the
// instruction is mapped to the helper's call site only if it executes on every
// run of the helper that returns (it dominates every return).
func liftToMust(fn *ssa.Function, in ssa.Instruction) ssa.Instruction {
	for d := 0; d < 4 && in != nil && in.Parent() != fn; d++ {
		p := in.Parent()
		if p.Parent() != nil || !isNewHelper(p) {
			return nil
		}
		for _, r := range returns(p) {
			if !(in.Block() == r.Block() || in.Block().Dominates(r.Block())) {
				return nil
			}
		}
		sites := callSitesOf(p)
		if len(sites) != 1 {
			return nil
		}
		in = sites[0]
	}
	if in != nil && in.Parent() == fn {
		return in
	}
	return nil
}

// calleeEstablishesNil: one of the patterns holds whenever the new helper h
// returns a nil (wantNil) or non-nil single result.
func calleeEstablishesNil(h *ssa.Function, wantNil bool, alts []FP, depth int) bool {
	if !isNewHelper(h) || depth > 2 || h.Signature.Results().Len() != 1 {
		return false
	}
	n := 0
	for _, r := range returns(h) {
		if len(r.Results) != 1 {
			return false
		}
		mayNil, mayNonNil := false, false
		for _, o := range origins(retOperand(r, 0)) {
			if isNilConst(o) {
				mayNil = true
			} else {
				mayNonNil = true // unknown values may be either; treated as relevant for both
				if _, isAlloc := o.(*ssa.Alloc); !isAlloc {
					if _, isMk := o.(*ssa.MakeInterface); !isMk {
						mayNil = true
					}
				}
			}
		}
		if (wantNil && !mayNil) || (!wantNil && !mayNonNil) {
			continue
		}
		g, k := guardedByDepth(r, depth+1, alts...)
		if !(k > 0 && g) {
			return false
		}
		n++
	}
	return n > 0
}

// sitesV lists the instructions satisfying match in fn and, with their call
// strings, in the helpers virtually inlined into fn.
func sitesV(fn *ssa.Function, match func(ssa.Instruction) bool) []VSite {
	var out []VSite
	var walk func(f *ssa.Function, ctx []ssa.CallInstruction, d int)
	walk = func(f *ssa.Function, ctx []ssa.CallInstruction, d int) {
		for _, b := range f.Blocks {
			for _, in := range b.Instrs {
				if match(in) {
					out = append(out, VSite{Site: Site{In: in}, Ctx: append([]ssa.CallInstruction(nil), ctx...)})
				}
				if k, ok := in.(ssa.CallInstruction); ok {
					if h := k.Common().StaticCallee(); h != nil && d < 3 && h != f && isNewHelper(h) {
						walk(h, append(append([]ssa.CallInstruction(nil), ctx...), k), d+1)
					}
				}
			}
		}
	}
	walk(fn, nil, 0)
	return out
}

// valueEntails: the boolean value v being equal to t entails one of the fact
// patterns.  Looks through !x, comparisons and the phi shapes of && and ||
// (recursively: `A || (B && C)` being false entails !A, and !B or !C).
func valueEntails(v ssa.Value, t bool, alts []FP, d int) bool {
	if d > 4 {
		return false
	}
	anyHolds := func(f Fact) bool {
		for _, p := range alts {
			if p.holds(f) {
				return true
			}
		}
		return false
	}
	for {
		u, ok := v.(*ssa.UnOp)
		if !ok || u.Op != token.NOT {
			break
		}
		v, t = u.X, !t
	}
	if b, ok := v.(*ssa.BinOp); ok && negOp(b.Op) != token.ILLEGAL {
		op := b.Op
		if !t {
			op = negOp(op)
		}
		return anyHolds(Fact{L: b.X, R: b.Y, Op: op})
	}
	if anyHolds(Fact{L: v, Truth: t}) {
		return true
	}
	factEntails := func(f Fact) bool {
		if anyHolds(f) {
			return true
		}
		return f.Op == token.ILLEGAL && f.L != nil && valueEntails(f.L, f.Truth, alts, d+1)
	}
	conj, disj := boolStructure(v, t, 0)
	for _, cf := range conj {
		if factEntails(cf) {
			return true
		}
	}
	if len(disj) > 0 {
		for _, df := range disj {
			if !factEntails(df) {
				return false
			}
		}
		return true
	}
	return false
}

// yieldClosures: the synthetic range-over-func bodies of fn.
func yieldClosures(fn *ssa.Function) []*ssa.Function {
	var out []*ssa.Function
	for _, g := range withClosures(fn) {
		if g != fn && g.Synthetic == "range-over-func yield" {
			out = append(out, g)
		}
	}
	return out
}

// yieldResultStores: `return v` statements inside range-over-func bodies of fn
// are compiled into a store of v to fn's result cell (captured by the yield
// closure) followed by a jump-code store; this lists those stores for result idx.
func yieldResultStores(fn *ssa.Function, idx int) []*ssa.Store {
	// result cells of fn: allocs whose loads are returned at position idx
	cells := map[*ssa.Alloc]bool{}
	for _, r := range returns(fn) {
		if idx >= len(r.Results) {
			continue
		}
		if u, ok := r.Results[idx].(*ssa.UnOp); ok && u.Op == token.MUL {
			if a, ok := u.X.(*ssa.Alloc); ok {
				cells[a] = true
			}
		}
	}
	var out []*ssa.Store
	for _, g := range yieldClosures(fn) {
		for _, b := range g.Blocks {
			for _, in := range b.Instrs {
				st, ok := in.(*ssa.Store)
				if !ok {
					continue
				}
				if a, ok := cellOf(st.Addr).(*ssa.Alloc); ok && cells[a] {
					out = append(out, st)
				}
			}
		}
	}
	return out
}

// inRangeFuncResume: the block belongs to the dispatch code that follows a
// range-over-func call (it re-returns what the yield closure stored).
func inRangeFuncResume(b *ssa.BasicBlock) bool {
	return strings.HasPrefix(b.Comment, "rangefunc.resume")
}

// refParamName is the name parameter p had on the reference tree (by position);
// the current name when the function is new or its arity changed.
func refParamName(p *ssa.Parameter) string {
	fn := p.Parent()
	if fn == nil || fn.Parent() != nil {
		return p.Name()
	}
	if refParams == nil {
		refParams = loadAnchorParams()
	}
	names, ok := refParams[fnName(fn)]
	if !ok || len(names) != len(fn.Params) {
		return p.Name()
	}
	for i, q := range fn.Params {
		if q == p {
			return names[i]
		}
	}
	return p.Name()
}

// refParamIndex: position (in Args of a static call, receiver included) of the
// parameter that was called name on the reference tree; -1 if unknown.
func refParamIndex(callee *ssa.Function, name string) int {
	if callee == nil || callee.Parent() != nil {
		return -1
	}
	if refParams == nil {
		refParams = loadAnchorParams()
	}
	names, ok := refParams[fnName(callee)]
	if !ok || len(names) != len(callee.Params) {
		return -1
	}
	for i, n := range names {
		if n == name {
			return i
		}
	}
	return -1
}

// structParamFieldOrigins: fa addresses a field of a struct-typed parameter (held by
// value in its local cell, or passed by pointer).  The field's value is the one the
// struct literal carries at every production call site; nil when that is not known
// for every site (the load then stays an opaque origin).
func structParamFieldOrigins(fa *ssa.FieldAddr) []ssa.Value {
	var par *ssa.Parameter
	switch b := fa.X.(type) {
	case *ssa.Parameter:
		par = b
	case *ssa.Alloc:
		st := cellStores(b)
		if len(st) == 1 {
			par, _ = st[0].(*ssa.Parameter)
		}
	}
	if par == nil || curProg == nil {
		return nil
	}
	fn := par.Parent()
	if fn == nil || !curProg.InP(fn) {
		return nil
	}
	if _, isStruct := deref(par.Type()).Underlying().(*types.Struct); !isStruct {
		return nil
	}
	idx := -1
	for i, q := range fn.Params {
		if q == par {
			idx = i
		}
	}
	if idx < 0 {
		return nil
	}
	name := fieldAddrName(fa)
	if i := strings.IndexByte(name, '.'); i >= 0 {
		name = name[i+1:]
	}
	sites := callSitesOf(fn)
	if len(sites) == 0 || len(sites) > 4 {
		return nil
	}
	var out []ssa.Value
	for _, s := range sites {
		a := s.Common().Args
		if idx >= len(a) {
			return nil
		}
		vs := structValueField(a[idx], name, fa.Field, 0)
		if vs == nil {
			return nil
		}
		out = append(out, vs...)
	}
	return out
}

// structValueField: the value(s) of field `name` of the struct value v: from the literal
// that built it, or - when v is itself a struct parameter passed on - from the literals
// at that parameter's call sites.
func structValueField(v ssa.Value, name string, fieldIdx int, depth int) []ssa.Value {
	if depth > 3 {
		return nil
	}
	if f := compositeFields(v); f != nil {
		if x, ok := f[name]; ok {
			return []ssa.Value{x}
		}
	}
	var par *ssa.Parameter
	switch x := v.(type) {
	case *ssa.Parameter:
		par = x
	case *ssa.UnOp:
		if a, ok := x.X.(*ssa.Alloc); ok {
			if st := cellStores(a); len(st) == 1 {
				par, _ = st[0].(*ssa.Parameter)
			}
		}
	}
	if par == nil || curProg == nil {
		return nil
	}
	fn := par.Parent()
	if fn == nil || !curProg.InP(fn) {
		return nil
	}
	idx := -1
	for i, q := range fn.Params {
		if q == par {
			idx = i
		}
	}
	sites := callSitesOf(fn)
	if idx < 0 || len(sites) == 0 || len(sites) > 4 {
		return nil
	}
	var out []ssa.Value
	for _, s := range sites {
		a := s.Common().Args
		if idx >= len(a) {
			return nil
		}
		vs := structValueField(a[idx], name, fieldIdx, depth+1)
		if vs == nil {
			return nil
		}
		out = append(out, vs...)
	}
	return out
}

// failStopV is failStopOK along a call string: the call fails its own function, and
// every helper call on the string fails the function it is made from.
func failStopV(s VSite) (bool, string) {
	call := s.Call()
	if call == nil {
		return false, "not a call"
	}
	if ok, why := failStopOK(call.Parent(), call); !ok {
		return false, why
	}
	for i := len(s.Ctx) - 1; i >= 0; i-- {
		k := s.Ctx[i]
		if errResultIndex(k.Common().Signature()) < 0 {
			return false, "the extracted helper " + calleeName(k) + " does not return the error"
		}
		if ok, why := failStopOK(k.Parent(), k); !ok {
			return false, why
		}
	}
	return true, ""
}

// resolveThroughCtx maps a value that is a parameter of a virtually inlined helper to the
// argument passed on the given call string (innermost call last).
func resolveThroughCtx(v ssa.Value, ctx []ssa.CallInstruction) ssa.Value {
	for i := len(ctx) - 1; i >= 0; i-- {
		var p *ssa.Parameter
		switch x := v.(type) {
		case *ssa.Parameter:
			p = x
		case *ssa.UnOp:
			// by-value parameter spilled into its local cell
			if a, ok := x.X.(*ssa.Alloc); ok {
				if st := cellStores(a); len(st) == 1 {
					p, _ = st[0].(*ssa.Parameter)
				}
			}
		}
		if p == nil {
			return v
		}
		callee := ctx[i].Common().StaticCallee()
		if callee == nil || p.Parent() != callee {
			continue
		}
		for j, q := range callee.Params {
			if q == p && j < len(ctx[i].Common().Args) {
				v = ctx[i].Common().Args[j]
			}
		}
	}
	return v
}

// isNewParam: par is a parameter a reference function did not have (a value the
// function used to read itself is now passed in): its origins are the arguments at
// the production call sites, like the parameters of an extracted helper.
func isNewParam(par *ssa.Parameter) bool {
	fn := par.Parent()
	if fn == nil || fn.Parent() != nil || curProg == nil || !curProg.InP(fn) {
		return false
	}
	if refParams == nil {
		refParams = loadAnchorParams()
	}
	names, ok := refParams[fnName(fn)]
	if !ok || len(names) == len(fn.Params) {
		return false
	}
	for _, n := range names {
		if n == par.Name() {
			return false
		}
	}
	return len(fn.Params) > len(names)
}

// typesPkgOf: the package of fn, through generic instantiations (whose Pkg is nil).
func typesPkgOf(fn *ssa.Function) *types.Package {
	for i := 0; i < 4 && fn != nil; i++ {
		if fn.Pkg != nil {
			return fn.Pkg.Pkg
		}
		if o := fn.Origin(); o != nil && o != fn {
			fn = o
			continue
		}
		break
	}
	return nil
}
