package main

// Virtual inlining of helpers that are new relative to the reference tree
// (anchors.json): provenance crosses into and out of them, and facts
// established inside them count at their call sites.  Functions known on the
// reference tree keep their identity (rules name them explicitly).

import (
	"go/constant"
	"go/token"
	"go/types"
	"strings"

	"golang.org/x/tools/go/ssa"
)

var curProg *Prog
var refAnchors map[string]string

// isNewHelper reports whether fn is a production function that did not exist on
// the reference tree (an extracted helper), and is therefore inlined virtually.
func isNewHelper(fn *ssa.Function) bool {
	if fn == nil || curProg == nil || fn.Blocks == nil || len(refAnchors) == 0 {
		return false
	}
	root := fn
	for root.Parent() != nil {
		root = root.Parent()
	}
	if !curProg.InP(root) {
		return false
	}
	if root != fn {
		return false // closures are handled by their parent
	}
	_, known := refAnchors[fnName(root)]
	return !known
}

// interprocOrigins: the values a call to a new helper can return (result idx of
// the extract, or the single result).
func interprocOrigins(call *ssa.Call, ex *ssa.Extract, depth int) []ssa.Value {
	if depth > 400 {
		return nil
	}
	g := call.Call.StaticCallee()
	if !isNewHelper(g) || g == call.Parent() {
		return nil
	}
	idx := 0
	if ex != nil {
		idx = ex.Index
	} else if call.Call.Signature().Results().Len() != 1 {
		return nil
	}
	var out []ssa.Value
	for _, r := range returns(g) {
		if idx < len(r.Results) {
			out = append(out, retOperand(r, idx))
		}
	}
	if len(out) == 0 {
		return nil
	}
	return out
}

// paramOrigins: the arguments passed for a parameter of a new helper at all its
// production call sites.
func paramOrigins(par *ssa.Parameter, depth int) []ssa.Value {
	if depth > 400 {
		return nil
	}
	fn := par.Parent()
	if !isNewHelper(fn) && !isNewParam(par) {
		return nil
	}
	idx := -1
	for i, q := range fn.Params {
		if q == par {
			idx = i
		}
	}
	if idx < 0 {
		return nil
	}
	var out []ssa.Value
	for _, site := range callSitesOf(fn) {
		a := site.Common().Args
		if idx < len(a) {
			out = append(out, a[idx])
		}
	}
	return out
}

var callSiteCache = map[*ssa.Function][]ssa.CallInstruction{}

func callSitesOf(fn *ssa.Function) []ssa.CallInstruction {
	if s, ok := callSiteCache[fn]; ok {
		return s
	}
	var out []ssa.CallInstruction
	if curProg != nil {
		for _, g := range curProg.ProdFuncs() {
			for _, c := range calls(g) {
				if c.Common().StaticCallee() == fn {
					out = append(out, c)
				}
			}
		}
	}
	callSiteCache[fn] = out
	return out
}

// calleeEstablishes reports whether one of the fact patterns holds whenever the
// new helper h returns with its boolean result equal to truth, or with a nil
// error (isErr): every such return is cut by the patterns inside h, or returns
// a boolean expression that itself entails one of them.
func calleeEstablishes(h *ssa.Function, isErr bool, truth bool, alts []FP, depth int) bool {
	if !isNewHelper(h) || depth > 2 {
		return false
	}
	entails := func(v ssa.Value, t bool, d int) bool { return valueEntails(v, t, alts, d) }
	n := 0
	for _, r := range returns(h) {
		if isErr {
			if !canSucceed(r) {
				continue
			}
		} else {
			if len(r.Results) == 0 {
				continue
			}
			v := retOperand(r, 0)
			if k, ok := v.(*ssa.Const); ok && k.Value != nil {
				if (k.Value.String() == "true") != truth {
					continue
				}
			} else if entails(v, truth, 0) {
				n++
				continue
			}
		}
		g, k := guardedByDepth(r, depth+1, alts...)
		if !(k > 0 && g) {
			return false
		}
		n++
	}
	return n > 0
}

// deepFuncs returns fn, and the new helpers (virtually inlined) it calls, transitively (depth 3).
func deepFuncs(fn *ssa.Function) []*ssa.Function {
	seen := map[*ssa.Function]bool{fn: true}
	out := []*ssa.Function{fn}
	var walk func(f *ssa.Function, d int)
	walk = func(f *ssa.Function, d int) {
		if d > 3 {
			return
		}
		for _, g := range withClosures(f) {
			for _, c := range calls(g) {
				h := c.Common().StaticCallee()
				if h != nil && !seen[h] && isNewHelper(h) {
					seen[h] = true
					out = append(out, h)
					walk(h, d+1)
				}
				// a new top-level function handed over as a callback (what used to be a closure)
				for _, a := range c.Common().Args {
					if ct, ok := a.(*ssa.ChangeType); ok {
						a = ct.X
					}
					if hf, ok := a.(*ssa.Function); ok && !seen[hf] && isNewHelper(hf) {
						seen[hf] = true
						out = append(out, hf)
						walk(hf, d+1)
					}
				}
			}
		}
	}
	walk(fn, 0)
	return out
}

// callsToDeep is callsTo over fn and the helpers virtually inlined into it.
func callsToDeep(fn *ssa.Function, pred func(string) bool) []ssa.CallInstruction {
	var out []ssa.CallInstruction
	for _, f := range deepFuncs(fn) {
		out = append(out, callsTo(f, pred)...)
	}
	return out
}

// storesToFieldDeep is storesToField over fn and its virtually inlined helpers.
func storesToFieldDeep(fn *ssa.Function, field string) []*ssa.Store {
	var out []*ssa.Store
	for _, f := range deepFuncs(fn) {
		out = append(out, storesToField(f, field)...)
	}
	return out
}

// liftTo maps an instruction inside a virtually inlined helper to its (single)
// call site in fn, so that ordering questions can be asked in fn's CFG.
func liftTo(fn *ssa.Function, in ssa.Instruction) ssa.Instruction {
	for d := 0; d < 4 && in != nil && in.Parent() != fn; d++ {
		p := in.Parent()
		for p.Parent() != nil { // closure: lift to its creation point
			var mk ssa.Instruction
			for _, b := range p.Parent().Blocks {
				for _, x := range b.Instrs {
					if mc, ok := x.(*ssa.MakeClosure); ok && mc.Fn == p {
						mk = mc
					}
				}
			}
			if mk == nil {
				return nil
			}
			in, p = mk, mk.Parent()
			if p == fn {
				return in
			}
		}
		if !isNewHelper(p) {
			return nil
		}
		sites := callSitesOf(p)
		if len(sites) != 1 {
			return nil
		}
		in = sites[0]
	}
	if in != nil && in.Parent() == fn {
		return in
	}
	return nil
}

// At is the instruction that represents the virtual site in the rule's own
// function: the site itself, or the outermost call on its call string.
func (s VSite) At() ssa.Instruction {
	if len(s.Ctx) > 0 {
		return s.Ctx[0]
	}
	return s.In
}

// liftToMust is liftTo for the dominating side of an ordering question: the
// instruction is mapped to the helper's call site only if it executes on every
// run of the helper that returns (it dominates every return).
func liftToMust(fn *ssa.Function, in ssa.Instruction) ssa.Instruction {
	for d := 0; d < 4 && in != nil && in.Parent() != fn; d++ {
		p := in.Parent()
		if p.Parent() != nil || !isNewHelper(p) {
			return nil
		}
		for _, r := range returns(p) {
			if !(in.Block() == r.Block() || in.Block().Dominates(r.Block())) {
				return nil
			}
		}
		sites := callSitesOf(p)
		if len(sites) != 1 {
			return nil
		}
		in = sites[0]
	}
	if in != nil && in.Parent() == fn {
		return in
	}
	return nil
}

// calleeEstablishesNil: one of the patterns holds whenever the new helper h
// returns a nil (wantNil) or non-nil single result.
func calleeEstablishesNil(h *ssa.Function, wantNil bool, alts []FP, depth int) bool {
	if !isNewHelper(h) || depth > 2 || h.Signature.Results().Len() != 1 {
		return false
	}
	n := 0
	for _, r := range returns(h) {
		if len(r.Results) != 1 {
			return false
		}
		mayNil, mayNonNil := false, false
		for _, o := range origins(retOperand(r, 0)) {
			if isNilConst(o) {
				mayNil = true
			} else {
				mayNonNil = true // unknown values may be either; treated as relevant for both
				if _, isAlloc := o.(*ssa.Alloc); !isAlloc {
					if _, isMk := o.(*ssa.MakeInterface); !isMk {
						mayNil = true
					}
				}
			}
		}
		if (wantNil && !mayNil) || (!wantNil && !mayNonNil) {
			continue
		}
		g, k := guardedByDepth(r, depth+1, alts...)
		if !(k > 0 && g) {
			return false
		}
		n++
	}
	return n > 0
}

// sitesV lists the instructions satisfying match in fn and, with their call
// strings, in the helpers virtually inlined into fn.
func sitesV(fn *ssa.Function, match func(ssa.Instruction) bool) []VSite {
	var out []VSite
	var walk func(f *ssa.Function, ctx []ssa.CallInstruction, d int)
	walk = func(f *ssa.Function, ctx []ssa.CallInstruction, d int) {
		for _, b := range f.Blocks {
			for _, in := range b.Instrs {
				if match(in) {
					out = append(out, VSite{Site: Site{In: in}, Ctx: append([]ssa.CallInstruction(nil), ctx...)})
				}
				if k, ok := in.(ssa.CallInstruction); ok {
					if h := k.Common().StaticCallee(); h != nil && d < 3 && h != f && isNewHelper(h) {
						walk(h, append(append([]ssa.CallInstruction(nil), ctx...), k), d+1)
					}
				}
			}
		}
	}
	walk(fn, nil, 0)
	return out
}

// valueEntails: the boolean value v being equal to t entails one of the fact
// patterns.  Looks through !x, comparisons and the phi shapes of && and ||
// (recursively: `A || (B && C)` being false entails !A, and !B or !C).
func valueEntails(v ssa.Value, t bool, alts []FP, d int) bool {
	if d > 4 {
		return false
	}
	anyHolds := func(f Fact) bool {
		for _, p := range alts {
			if p.holds(f) {
				return true
			}
		}
		return false
	}
	for {
		u, ok := v.(*ssa.UnOp)
		if !ok || u.Op != token.NOT {
			break
		}
		v, t = u.X, !t
	}
	if b, ok := v.(*ssa.BinOp); ok && negOp(b.Op) != token.ILLEGAL {
		op := b.Op
		if !t {
			op = negOp(op)
		}
		return anyHolds(Fact{L: b.X, R: b.Y, Op: op})
	}
	if anyHolds(Fact{L: v, Truth: t}) {
		return true
	}
	factEntails := func(f Fact) bool {
		if anyHolds(f) {
			return true
		}
		return f.Op == token.ILLEGAL && f.L != nil && valueEntails(f.L, f.Truth, alts, d+1)
	}
	conj, disj := boolStructure(v, t, 0)
	for _, cf := range conj {
		if factEntails(cf) {
			return true
		}
	}
	if len(disj) > 0 {
		for _, df := range disj {
			if !factEntails(df) {
				return false
			}
		}
		return true
	}
	return false
}

// yieldClosures: the synthetic range-over-func bodies of fn.
func yieldClosures(fn *ssa.Function) []*ssa.Function {
	var out []*ssa.Function
	for _, g := range withClosures(fn) {
		if g != fn && g.Synthetic == "range-over-func yield" {
			out = append(out, g)
		}
	}
	return out
}

// yieldResultStores: `return v` statements inside range-over-func bodies of fn
// are compiled into a store of v to fn's result cell (captured by the yield
// closure) followed by a jump-code store; this lists those stores for result idx.
func yieldResultStores(fn *ssa.Function, idx int) []*ssa.Store {
	// result cells of fn: allocs whose loads are returned at position idx
	cells := map[*ssa.Alloc]bool{}
	for _, r := range returns(fn) {
		if idx >= len(r.Results) {
			continue
		}
		if u, ok := r.Results[idx].(*ssa.UnOp); ok && u.Op == token.MUL {
			if a, ok := u.X.(*ssa.Alloc); ok {
				cells[a] = true
			}
		}
	}
	var out []*ssa.Store
	for _, g := range yieldClosures(fn) {
		for _, b := range g.Blocks {
			for _, in := range b.Instrs {
				st, ok := in.(*ssa.Store)
				if !ok {
					continue
				}
				if a, ok := cellOf(st.Addr).(*ssa.Alloc); ok && cells[a] {
					out = append(out, st)
				}
			}
		}
	}
	return out
}

// inRangeFuncResume: the block belongs to the dispatch code that follows a
// range-over-func call (it re-returns what the yield closure stored).
func inRangeFuncResume(b *ssa.BasicBlock) bool {
	return strings.HasPrefix(b.Comment, "rangefunc.resume")
}

// refParamName is the name parameter p had on the reference tree (by position);
// the current name when the function is new or its arity changed.
func refParamName(p *ssa.Parameter) string {
	fn := p.Parent()
	if fn == nil || fn.Parent() != nil {
		return p.Name()
	}
	if refParams == nil {
		refParams = loadAnchorParams()
	}
	names, ok := refParams[fnName(fn)]
	if !ok || len(names) != len(fn.Params) {
		return p.Name()
	}
	for i, q := range fn.Params {
		if q == p {
			return names[i]
		}
	}
	return p.Name()
}

// refParamIndex: position (in Args of a static call, receiver included) of the
// parameter that was called name on the reference tree; -1 if unknown.
func refParamIndex(callee *ssa.Function, name string) int {
	if callee == nil || callee.Parent() != nil {
		return -1
	}
	if refParams == nil {
		refParams = loadAnchorParams()
	}
	names, ok := refParams[fnName(callee)]
	if !ok || len(names) != len(callee.Params) {
		return -1
	}
	for i, n := range names {
		if n == name {
			return i
		}
	}
	return -1
}

// structParamFieldOrigins: fa addresses a field of a struct-typed parameter (held by
// value in its local cell, or passed by pointer).  The field's value is the one the
// struct literal carries at every production call site; nil when that is not known
// for every site (the load then stays an opaque origin).
func structParamFieldOrigins(fa *ssa.FieldAddr) []ssa.Value {
	var par *ssa.Parameter
	switch b := fa.X.(type) {
	case *ssa.Parameter:
		par = b
	case *ssa.Alloc:
		st := cellStores(b)
		if len(st) == 1 {
			par, _ = st[0].(*ssa.Parameter)
		}
	}
	if par == nil || curProg == nil {
		return nil
	}
	fn := par.Parent()
	if fn == nil || !curProg.InP(fn) {
		return nil
	}
	if _, isStruct := deref(par.Type()).Underlying().(*types.Struct); !isStruct {
		return nil
	}
	idx := -1
	for i, q := range fn.Params {
		if q == par {
			idx = i
		}
	}
	if idx < 0 {
		return nil
	}
	name := fieldAddrName(fa)
	if i := strings.IndexByte(name, '.'); i >= 0 {
		name = name[i+1:]
	}
	sites := callSitesOf(fn)
	if len(sites) == 0 || len(sites) > 4 {
		return nil
	}
	var out []ssa.Value
	for _, s := range sites {
		a := s.Common().Args
		if idx >= len(a) {
			return nil
		}
		vs := structValueField(a[idx], name, fa.Field, 0)
		if vs == nil {
			return nil
		}
		out = append(out, vs...)
	}
	return out
}

// structValueField: the value(s) of field `name` of the struct value v: from the literal
// that built it, or - when v is itself a struct parameter passed on - from the literals
// at that parameter's call sites.
func structValueField(v ssa.Value, name string, fieldIdx int, depth int) []ssa.Value {
	if depth > 3 {
		return nil
	}
	if f := compositeFields(v); f != nil {
		if x, ok := f[name]; ok {
			return []ssa.Value{x}
		}
	}
	var par *ssa.Parameter
	switch x := v.(type) {
	case *ssa.Parameter:
		par = x
	case *ssa.UnOp:
		if a, ok := x.X.(*ssa.Alloc); ok {
			if st := cellStores(a); len(st) == 1 {
				par, _ = st[0].(*ssa.Parameter)
			}
		}
	}
	if par == nil || curProg == nil {
		return nil
	}
	fn := par.Parent()
	if fn == nil || !curProg.InP(fn) {
		return nil
	}
	idx := -1
	for i, q := range fn.Params {
		if q == par {
			idx = i
		}
	}
	sites := callSitesOf(fn)
	if idx < 0 || len(sites) == 0 || len(sites) > 4 {
		return nil
	}
	var out []ssa.Value
	for _, s := range sites {
		a := s.Common().Args
		if idx >= len(a) {
			return nil
		}
		vs := structValueField(a[idx], name, fieldIdx, depth+1)
		if vs == nil {
			return nil
		}
		out = append(out, vs...)
	}
	return out
}

// failStopV is failStopOK along a call string: the call fails its own function, and
// every helper call on the string fails the function it is made from.
func failStopV(s VSite) (bool, string) {
	call := s.Call()
	if call == nil {
		return false, "not a call"
	}
	if ok, why := failStopOK(call.Parent(), call); !ok {
		return false, why
	}
	for i := len(s.Ctx) - 1; i >= 0; i-- {
		k := s.Ctx[i]
		if errResultIndex(k.Common().Signature()) < 0 {
			return false, "the extracted helper " + calleeName(k) + " does not return the error"
		}
		if ok, why := failStopOK(k.Parent(), k); !ok {
			return false, why
		}
	}
	return true, ""
}

// resolveThroughCtx maps a value that is a parameter of a virtually inlined helper to the
// argument passed on the given call string (innermost call last).
func resolveThroughCtx(v ssa.Value, ctx []ssa.CallInstruction) ssa.Value {
	for i := len(ctx) - 1; i >= 0; i-- {
		var p *ssa.Parameter
		switch x := v.(type) {
		case *ssa.Parameter:
			p = x
		case *ssa.UnOp:
			// by-value parameter spilled into its local cell
			if a, ok := x.X.(*ssa.Alloc); ok {
				if st := cellStores(a); len(st) == 1 {
					p, _ = st[0].(*ssa.Parameter)
				}
			}
		}
		if p == nil {
			return v
		}
		callee := ctx[i].Common().StaticCallee()
		if callee == nil || p.Parent() != callee {
			continue
		}
		for j, q := range callee.Params {
			if q == p && j < len(ctx[i].Common().Args) {
				v = ctx[i].Common().Args[j]
			}
		}
	}
	return v
}

// isNewParam: par is a parameter a reference function did not have (a value the
// function used to read itself is now passed in): its origins are the arguments at
// the production call sites, like the parameters of an extracted helper.
func isNewParam(par *ssa.Parameter) bool {
	fn := par.Parent()
	if fn == nil || fn.Parent() != nil || curProg == nil || !curProg.InP(fn) {
		return false
	}
	if refParams == nil {
		refParams = loadAnchorParams()
	}
	names, ok := refParams[fnName(fn)]
	if !ok {
		return false
	}
	// the reference parameter of that name, with its type (receiver first)
	refTypes := refParamTypes(fnName(fn))
	for i, n := range names {
		if n != par.Name() {
			continue
		}
		if refTypes == nil || i >= len(refTypes) {
			return false
		}
		// same name, same type: the old parameter; same name but another type (the receiver
		// `db *DB` replaced by a parameter `db *sql.DB`): a new one
		return refTypes[i] != shortName(par.Type().String())
	}
	// no reference parameter of that name: renamed (same position, same type) or new
	for i, q := range fn.Params {
		if q == par && len(fn.Params) == len(names) && refTypes != nil && i < len(refTypes) && refTypes[i] == shortName(par.Type().String()) {
			return false
		}
	}
	return len(fn.Params) >= len(names)
}

// refParamTypes parses the reference fingerprint "recv|func(T1, T2) (R...)" of a function
// into its parameter types, receiver first (nil when unknown).
func refParamTypes(name string) []string {
	sig, ok := refAnchors[name]
	if !ok {
		return nil
	}
	bar := strings.IndexByte(sig, '|')
	if bar < 0 {
		return nil
	}
	var out []string
	if recv := sig[:bar]; !strings.HasPrefix(recv, "pkg:") && recv != "" {
		out = append(out, recv)
	}
	rest := sig[bar+1:]
	if !strings.HasPrefix(rest, "func(") {
		return nil
	}
	depth, start := 0, len("func(")
	for i := start; i < len(rest); i++ {
		switch rest[i] {
		case '(', '[', '{':
			depth++
		case ')', ']', '}':
			if depth == 0 {
				if i > start {
					out = append(out, strings.TrimSpace(rest[start:i]))
				}
				return out
			}
			depth--
		case ',':
			if depth == 0 {
				out = append(out, strings.TrimSpace(rest[start:i]))
				start = i + 1
			}
		}
	}
	return out
}

// typesPkgOf: the package of fn, through generic instantiations (whose Pkg is nil).
func typesPkgOf(fn *ssa.Function) *types.Package {
	for i := 0; i < 4 && fn != nil; i++ {
		if fn.Pkg != nil {
			return fn.Pkg.Pkg
		}
		if o := fn.Origin(); o != nil && o != fn {
			fn = o
			continue
		}
		break
	}
	return nil
}

// ---------------------------------------------------------------------------
// cell promotion: a local that is captured by a closure stays a memory cell in SSA
// form.  When every closure only reads it, the stores of the enclosing function are
// its only definitions and a load can be presented like the phi it would have been.

// promotableCell returns the Alloc behind a load when all writes to it are stores
// in the allocating function itself.
func promotableCell(v ssa.Value) *ssa.Alloc {
	u, ok := v.(*ssa.UnOp)
	if !ok || u.Op != token.MUL {
		return nil
	}
	a, ok := u.X.(*ssa.Alloc)
	if !ok || a.Referrers() == nil {
		return nil
	}
	var readOnly func(addr ssa.Value, depth int) bool
	readOnly = func(addr ssa.Value, depth int) bool {
		if addr.Referrers() == nil || depth > 3 {
			return false
		}
		for _, r := range *addr.Referrers() {
			switch x := r.(type) {
			case *ssa.UnOp:
				if x.Op != token.MUL {
					return false
				}
			case *ssa.DebugRef:
			case *ssa.MakeClosure:
				cl, _ := x.Fn.(*ssa.Function)
				if cl == nil {
					return false
				}
				for i, b := range x.Bindings {
					if b == addr && (i >= len(cl.FreeVars) || !readOnly(cl.FreeVars[i], depth+1)) {
						return false
					}
				}
			default:
				return false
			}
		}
		return true
	}
	for _, r := range *a.Referrers() {
		switch x := r.(type) {
		case *ssa.Store:
			if x.Addr != a {
				return nil // the address itself is stored somewhere
			}
		case *ssa.UnOp, *ssa.DebugRef:
		case *ssa.MakeClosure:
			cl, _ := x.Fn.(*ssa.Function)
			if cl == nil {
				return nil
			}
			for i, b := range x.Bindings {
				if b == ssa.Value(a) && (i >= len(cl.FreeVars) || !readOnly(cl.FreeVars[i], 0)) {
					return nil
				}
			}
		default:
			return nil
		}
	}
	return a
}

// cellIncomings presents the load of a promotable cell as the merge it stands for:
// the single store that reaches it, or one entry per predecessor edge of the nearest
// merge block (Val is the stored value when exactly one store reaches over that edge,
// the load itself otherwise).
func cellIncomings(load ssa.Value) []Incoming {
	a := promotableCell(load)
	if a == nil {
		return nil
	}
	u := load.(*ssa.UnOp)
	fn := u.Parent()
	lastStore := func(b *ssa.BasicBlock, before ssa.Instruction) *ssa.Store {
		var last *ssa.Store
		for _, in := range b.Instrs {
			if in == before {
				break
			}
			if st, ok := in.(*ssa.Store); ok && st.Addr == a {
				last = st
			}
		}
		return last
	}
	// reaching stores at block exit (nil = the zero value at the Alloc)
	out := map[*ssa.BasicBlock]map[*ssa.Store]bool{}
	for changed := true; changed; {
		changed = false
		for _, b := range fn.Blocks {
			cur := map[*ssa.Store]bool{}
			if st := lastStore(b, nil); st != nil {
				cur[st] = true
			} else {
				if len(b.Preds) == 0 {
					cur[nil] = true
				}
				for _, p := range b.Preds {
					for s := range out[p] {
						cur[s] = true
					}
				}
			}
			if len(cur) != len(out[b]) {
				out[b] = cur
				changed = true
			}
		}
	}
	if st := lastStore(u.Block(), u); st != nil {
		return []Incoming{{Val: st.Val}}
	}
	cur := u.Block()
	for len(cur.Preds) == 1 {
		p := cur.Preds[0]
		if st := lastStore(p, nil); st != nil {
			return []Incoming{{Val: st.Val}}
		}
		cur = p
	}
	// a merge over which the cell is unchanged since the immediate dominator is not
	// where its phi would stand: continue from the dominator
	hasStore := func(b *ssa.BasicBlock) bool { return lastStore(b, nil) != nil }
	for len(cur.Preds) > 0 {
		if len(cur.Preds) == 1 {
			p := cur.Preds[0]
			if st := lastStore(p, nil); st != nil {
				return []Incoming{{Val: st.Val}}
			}
			cur = p
			continue
		}
		d := cur.Idom()
		if d == nil {
			break
		}
		clean := true
		seen := map[*ssa.BasicBlock]bool{cur: true}
		var walk func(b *ssa.BasicBlock)
		walk = func(b *ssa.BasicBlock) {
			if seen[b] || !clean {
				return
			}
			seen[b] = true
			if b == d || hasStore(b) {
				// back at the dominator (a loop) or a definition on the way
				clean = false
				return
			}
			for _, s := range b.Succs {
				walk(s)
			}
		}
		for _, s := range d.Succs {
			walk(s)
		}
		if !clean {
			break
		}
		if st := lastStore(d, nil); st != nil {
			return []Incoming{{Val: st.Val}}
		}
		cur = d
	}
	if len(cur.Preds) == 0 {
		return nil
	}
	var incs []Incoming
	for _, p := range cur.Preds {
		val := load
		if len(out[p]) == 1 {
			for s := range out[p] {
				if s != nil {
					val = s.Val
				}
			}
		}
		incs = append(incs, Incoming{Val: val, Pred: p, Blk: cur})
	}
	return incs
}

// refArgs returns the arguments of a call indexed by the positions the callee's
// parameters had on the reference tree (receiver first).  For a callee whose arity is
// unchanged (or that is not a reference function) this is the argument list itself;
// when parameters were added, dropped or a receiver became a parameter, each reference
// position is resolved through the parameter's name, and a position that no longer has
// a counterpart holds a value no matcher accepts.
func refArgs(c ssa.CallInstruction) []ssa.Value {
	cc := c.Common()
	callee := cc.StaticCallee()
	if cc.IsInvoke() || callee == nil || callee.Parent() != nil {
		return cc.Args
	}
	if refParams == nil {
		refParams = loadAnchorParams()
	}
	names, ok := refParams[fnName(callee)]
	if !ok || len(names) == len(callee.Params) || len(cc.Args) != len(callee.Params) {
		return cc.Args
	}
	out := make([]ssa.Value, len(names))
	for i, n := range names {
		out[i] = unresolvedArg
		for j, p := range callee.Params {
			if p.Name() == n && n != "_" && n != "" {
				out[i] = cc.Args[j]
			}
		}
	}
	return out
}

var unresolvedArg ssa.Value = ssa.NewConst(constant.MakeString("<argument without counterpart on this tree>"), types.Typ[types.String])

// localStructFieldValues: fa addresses a field of a local struct variable (an Alloc of
// struct type in fa's function) whose address is handed to new helpers.  The field's
// values are those stored to it in the function itself and, through the corresponding
// parameter, in those helpers.  nil when no helper writes the field (the load is then
// resolved as before).
func localStructFieldValues(fa *ssa.FieldAddr) []ssa.Value {
	al, ok := fa.X.(*ssa.Alloc)
	if !ok || al.Referrers() == nil {
		return nil
	}
	if _, isStruct := al.Type().Underlying().(*types.Pointer).Elem().Underlying().(*types.Struct); !isStruct {
		return nil
	}
	var vals []ssa.Value
	helper := false
	for _, r := range *al.Referrers() {
		switch x := r.(type) {
		case *ssa.FieldAddr:
			if x.Field != fa.Field || x.Referrers() == nil {
				continue
			}
			for _, rr := range *x.Referrers() {
				if st, ok := rr.(*ssa.Store); ok && st.Addr == x {
					vals = append(vals, st.Val)
				}
			}
		case ssa.CallInstruction:
			h := x.Common().StaticCallee()
			if !isNewHelper(h) {
				continue
			}
			for i, a := range x.Common().Args {
				if a != ssa.Value(al) || i >= len(h.Params) {
					continue
				}
				for _, g := range withClosures(h) {
					for _, b := range g.Blocks {
						for _, in := range b.Instrs {
							st, ok := in.(*ssa.Store)
							if !ok {
								continue
							}
							if fb, ok := st.Addr.(*ssa.FieldAddr); ok && fb.Field == fa.Field && fb.X == ssa.Value(h.Params[i]) {
								vals = append(vals, st.Val)
								helper = true
							}
						}
					}
				}
			}
		}
	}
	if !helper {
		return nil
	}
	return vals
}

// factOccurrences counts how often a fact pattern is decided in g: branch edges carrying
// it, plus boolean values that entail it one way or the other without being branched on
// (`return !ts.IsZero() && !info.CreatedAt.Before(ts)` in an extracted predicate).
func factOccurrences(g *ssa.Function, fp FP) int {
	n := len(factEdges(g, fp))
	for _, b := range g.Blocks {
		for _, in := range b.Instrs {
			v, ok := in.(ssa.Value)
			if !ok {
				continue
			}
			if bt, isB := v.Type().Underlying().(*types.Basic); !isB || bt.Kind() != types.Bool {
				continue
			}
			switch in.(type) {
			case *ssa.Call, *ssa.BinOp:
			default:
				continue
			}
			// only values that are not themselves the condition of a branch (those were counted)
			branched := false
			if refs := v.Referrers(); refs != nil {
				for _, r := range *refs {
					if _, isIf := r.(*ssa.If); isIf {
						branched = true
					}
				}
			}
			if branched {
				continue
			}
			if valueEntails(v, true, []FP{fp}, 3) || valueEntails(v, false, []FP{fp}, 3) {
				n++
			}
		}
	}
	return n
}

// delegateOf: a reference function whose body was moved wholesale into a new function
// (`func (s *Store) F(ctx, db) error { return f(ctx, db, s.levels, ...) }`) is analysed
// where its body now lives.  fn is such a wrapper when it is a single block that returns
// exactly the results of one call to a new helper.
func delegateOf(fn *ssa.Function) *ssa.Function {
	for d := 0; d < 2; d++ {
		if fn == nil || len(fn.Blocks) != 1 || isNewHelper(fn) {
			return fn
		}
		ret, ok := lastInstr(fn.Blocks[0]).(*ssa.Return)
		if !ok || len(ret.Results) == 0 {
			return fn
		}
		var call *ssa.Call
		for _, r := range ret.Results {
			var c *ssa.Call
			switch x := r.(type) {
			case *ssa.Call:
				c = x
			case *ssa.Extract:
				c, _ = x.Tuple.(*ssa.Call)
			}
			if c == nil || (call != nil && c != call) {
				return fn
			}
			call = c
		}
		h := call.Call.StaticCallee()
		if !isNewHelper(h) || h.Blocks == nil {
			return fn
		}
		// nothing else of substance happens in the wrapper: no other call into the module
		for _, k := range calls(fn) {
			if k == ssa.CallInstruction(call) {
				continue
			}
			if g := k.Common().StaticCallee(); g != nil && curProg != nil && curProg.InP(g) {
				return fn
			}
		}
		fn = h
	}
	return fn
}

// newFieldValues: fa addresses a field the reference tree's struct did not have.  Its
// value is whatever production code stores into it (typically once, in a constructor).
func newFieldValues(fa *ssa.FieldAddr) []ssa.Value {
	if refFields == nil {
		refFields = loadAnchorFields()
	}
	name := fieldAddrName(fa)
	if len(refFields) == 0 || refFields[name] || curProg == nil || strings.HasPrefix(name, "struct.") || strings.HasPrefix(name, "?") {
		return nil
	}
	// only types of the production packages that existed on the reference tree or not: a
	// field of a new type that is filled by a literal is handled like a bundled parameter
	if nt, ok := types.Unalias(deref(fa.X.Type())).(*types.Named); !ok || nt.Obj().Pkg() == nil {
		return nil
	} else if rel, inMod := relPkg(nt.Obj().Pkg()); !inMod || !prodPkgs[rel] {
		return nil
	}
	if v, ok := newFieldCache[name]; ok {
		return v
	}
	var vals []ssa.Value
	for _, g := range curProg.ProdFuncs() {
		if g.Parent() != nil {
			continue
		}
		for _, st := range storesToField(g, name) {
			vals = append(vals, st.Val)
		}
	}
	newFieldCache[name] = vals
	return vals
}

var newFieldCache = map[string][]ssa.Value{}

// isErrPredicate: the call's true result implies that its first argument (an error) is
// non-nil: a listed predicate, or a new helper with one error parameter whose every
// possibly-true return entails `param != nil` (isLeaseConflict(err) wrapping errors.As).
func isErrPredicate(call *ssa.Call) bool {
	if errPredicates[calleeName(call)] {
		return len(call.Call.Args) > 0
	}
	h := call.Call.StaticCallee()
	if !isNewHelper(h) || len(call.Call.Args) == 0 || h.Signature.Results().Len() != 1 {
		return false
	}
	if v, ok := newPredCache[h]; ok {
		return v
	}
	newPredCache[h] = false // recursion guard
	ok := false
	if len(h.Params) > 0 && isErrorType(h.Params[0].Type()) {
		if bt, isB := h.Signature.Results().At(0).Type().Underlying().(*types.Basic); isB && bt.Kind() == types.Bool {
			par := h.Params[0]
			ok = calleeEstablishes(h, false, true, []FP{cmpFact(func(v ssa.Value) bool { return v == ssa.Value(par) }, token.NEQ, vNil(), "")}, 0)
		}
	}
	newPredCache[h] = ok
	return ok
}

var newPredCache = map[*ssa.Function]bool{}

// osOpenFlags returns the values of os.O_WRONLY, O_RDWR, O_APPEND, O_CREATE, O_EXCL and
// O_TRUNC for the configuration that is loaded (they differ between operating systems).
func osOpenFlags() (oWronly, oRdwr, oAppend, oCreate, oExcl, oTrunc int64) {
	// linux defaults, used only if the os package cannot be inspected
	oWronly, oRdwr, oAppend, oCreate, oExcl, oTrunc = 0x1, 0x2, 0x400, 0x40, 0x80, 0x200
	if curProg == nil {
		return
	}
	for _, pk := range curProg.SSA.AllPackages() {
		if pk.Pkg.Path() != "os" {
			continue
		}
		get := func(name string, def int64) int64 {
			if nc, ok := pk.Members[name].(*ssa.NamedConst); ok && nc.Value != nil {
				return nc.Value.Int64()
			}
			return def
		}
		oWronly = get("O_WRONLY", oWronly)
		oRdwr = get("O_RDWR", oRdwr)
		oAppend = get("O_APPEND", oAppend)
		oCreate = get("O_CREATE", oCreate)
		oExcl = get("O_EXCL", oExcl)
		oTrunc = get("O_TRUNC", oTrunc)
	}
	return
}
