package main

// lsverify: static verification of litestream properties C01..C20.
//
//   lsverify check   -property C09 [-tier quick|thorough] [-repo /repo]
//   lsverify explain <replay.json>
//   lsverify list
//
// A check loads /repo's current working tree from source, evaluates the
// obligations of one property and writes /verif/evidence/<id>.json.

import (
	"encoding/json"
	"flag"
	"fmt"
	"os"
	"path/filepath"
	"runtime/debug"
	"sort"
	"strconv"
	"strings"
	"time"
)

// PropSpec describes the static decision procedure of one property.
type PropSpec struct {
	ID          string
	Run         func(c *Ctx)
	Explanation string   // what is decided and how (coverage.explanation)
	NotDecided  string   // what the claim does not cover
	Assumptions []string // trusted base
}

var registry = map[string]*PropSpec{}

var extraCmds = map[string]func([]string) int{}

func register(p *PropSpec) { registry[p.ID] = p }

func verifDir() string {
	if v := os.Getenv("LSVERIFY_HOME"); v != "" {
		return v
	}
	exe, err := os.Executable()
	if err == nil {
		d := filepath.Dir(filepath.Dir(exe))
		if _, err := os.Stat(filepath.Join(d, "properties.jsonl")); err == nil {
			return d
		}
	}
	return "/verif"
}

func main() {
	if len(os.Args) < 2 {
		usage()
	}
	switch os.Args[1] {
	case "check":
		rc := cmdCheck(os.Args[2:]); profStop(); os.Exit(rc)
	case "explain":
		os.Exit(cmdExplain(os.Args[2:]))
	case "selftest":
		os.Exit(cmdSelftest(os.Args[2:]))
	case "list":
		ids := make([]string, 0, len(registry))
		for id := range registry {
			ids = append(ids, id)
		}
		sort.Strings(ids)
		for _, id := range ids {
			fmt.Println(id)
		}
	default:
		if f, ok := extraCmds[os.Args[1]]; ok {
			os.Exit(f(os.Args[2:]))
		}
		usage()
	}
}

func usage() {
	fmt.Fprintln(os.Stderr, "usage: lsverify check -property Cxx [-tier quick|thorough] [-repo DIR] | explain FILE | selftest | list")
	os.Exit(2)
}

func configsFor(tier, repo string) []LoadConfig {
	base := LoadConfig{Dir: repo, Tags: "vfs"}
	if tier != "thorough" {
		return []LoadConfig{base}
	}
	return []LoadConfig{
		base,
		{Dir: repo, Tags: ""},
		// cross configurations are loaded with CGO_ENABLED=0; psanford/sqlite3vfs (tag vfs) needs cgo
		{Dir: repo, Tags: "", GOOS: "darwin", GOARCH: "amd64"},
		{Dir: repo, Tags: "", GOOS: "windows", GOARCH: "amd64"},
		{Dir: repo, Tags: "", GOOS: "linux", GOARCH: "386"},
	}
}

// runProperty evaluates one property under one configuration, converting
// panics of the analysis into undecided obligations (which fail the check).
func runProperty(spec *PropSpec, p *Prog, tier string) (c *Ctx) {
	c = &Ctx{P: p, Prop: spec.ID, Tier: tier}
	defer func() {
		if r := recover(); r != nil {
			c.add("engine", "panic", "", StUndecided, fmt.Sprintf("analysis panicked: %v\n%s", r, debug.Stack()))
		}
	}()
	spec.Run(c)
	return c
}

func cmdCheck(args []string) int {
	fs := flag.NewFlagSet("check", flag.ExitOnError)
	prop := fs.String("property", "", "property id")
	tier := fs.String("tier", os.Getenv("VERIF_TIER"), "quick|thorough")
	repo := fs.String("repo", "/repo", "repository root")
	verbose := fs.Bool("v", false, "print every obligation")
	fs.Parse(args)
	if *tier == "" {
		*tier = "quick"
	}
	spec := registry[*prop]
	if spec == nil {
		fmt.Fprintf(os.Stderr, "unknown property %q\n", *prop)
		return 2
	}
	seed, _ := strconv.Atoi(os.Getenv("VERIF_SEED"))
	home := verifDir()
	t0 := time.Now()

	known, err := loadKnown(filepath.Join(home, "known_findings.json"))
	if err != nil {
		fmt.Fprintln(os.Stderr, err)
		return 2
	}

	var all []Obl
	var cfgNames []string
	funcs := map[string]bool{}
	var notes []string
	nPkgs, nFuncs := 0, 0
	ltxVer := ""
	loadFailed := ""
	for _, lc := range configsFor(*tier, *repo) {
		p, err := Load(lc)
		if err != nil {
			loadFailed = err.Error()
			all = append(all, Obl{Prop: spec.ID, Rule: "engine", Construct: "load " + lc.String(), Status: StUndecided, Detail: err.Error(), Config: lc.String()})
			continue
		}
		cfgNames = append(cfgNames, lc.String())
		if nPkgs == 0 {
			nPkgs = p.AllPkgs
			nFuncs = len(p.ProdFuncs())
			ltxVer = p.LtxVer
		}
		c := runProperty(spec, p, *tier)
		all = append(all, c.Obls...)
		for f := range c.funcs {
			funcs[f] = true
		}
		if len(notes) == 0 {
			notes = c.notes
		}
		p = nil
		debug.FreeOSMemory()
	}
	_ = loadFailed

	byKey, keys := summarize(all)
	nOK, nViol, nKnown, nInfo := 0, 0, 0, 0
	var samples []any
	var violLines []string
	ruleCount := map[string]int{}
	outDir := filepath.Join(home, "out")
	for _, k := range keys {
		w := worst(byKey[k])
		ruleCount[w.Rule]++
		switch w.Status {
		case StOK:
			nOK++
			if *verbose {
				fmt.Printf("ok        %s %s @ %s  %s\n", w.Rule, w.Construct, w.Pos, w.Detail)
			}
		case StInfo:
			nInfo++
			fmt.Printf("info      %s %s @ %s  %s\n", w.Rule, w.Construct, w.Pos, w.Detail)
		default:
			if kf, ok := known[k]; ok && w.Status == StViolation {
				nKnown++
				fmt.Printf("KNOWN-FINDING: property=%s %s [%s %s @ %s] %s\n", spec.ID, kf.ID, w.Rule, w.Construct, w.Pos, kf.What)
				continue
			}
			nViol++
			replay := filepath.Join(outDir, fmt.Sprintf("%s-%s.json", spec.ID, sanitize(w.Rule+"-"+w.Construct)))
			_ = writeJSON(replay, map[string]any{"obligation": w, "all_configs": byKey[k], "repo": *repo, "tier": *tier})
			fmt.Printf("%-9s %s %s @ %s\n          %s\n", w.Status, w.Rule, w.Construct, w.Pos, w.Detail)
			for _, s := range w.Path {
				fmt.Printf("            %s\n", s)
			}
			violLines = append(violLines, fmt.Sprintf("VIOLATION property=%s replay=%s", spec.ID, replay))
		}
	}
	// samples: a spread of actual obligations (first of each rule, up to 40)
	seenRule := map[string]int{}
	for _, k := range keys {
		w := worst(byKey[k])
		if seenRule[w.Rule] >= 3 || len(samples) >= 60 {
			continue
		}
		seenRule[w.Rule]++
		samples = append(samples, map[string]any{"rule": w.Rule, "construct": w.Construct, "pos": w.Pos, "status": w.Status, "detail": w.Detail})
	}
	total := nOK + nViol + nKnown
	fnList := make([]string, 0, len(funcs))
	for f := range funcs {
		fnList = append(fnList, f)
	}
	sort.Strings(fnList)

	// thorough tier: replay the seeded and the behaviour-preserving changes of this
	// property through the overlay (evidence about the checker; not part of the verdict)
	var selftest map[string]any
	if *tier == "thorough" && os.Getenv("VERIF_NO_SELFTEST") == "" {
		selftest = checkerSelftestFor(spec, *repo, home)
		if m, _ := selftest["seeded_changes_missed"].([]string); len(m) > 0 {
			fmt.Printf("note      checker selftest: seeded change(s) %v are not reported on this tree\n", m)
		}
		if a, _ := selftest["benign_refactorings_alarmed"].([]string); len(a) > 0 {
			fmt.Printf("note      checker selftest: behaviour-preserving change(s) %v raise an alarm on this tree\n", a)
		}
	}

	ev := Evidence{
		PropertyID: spec.ID, Tier: *tier, Seed: seed, Level: "other",
		Coverage: map[string]any{
			"explanation":            spec.Explanation,
			"not_decided":            spec.NotDecided,
			"obligations":            total,
			"discharged":             nOK,
			"known_findings":         nKnown,
			"report_only":            nInfo,
			"evaluations":            len(all),
			"distinct_nontrivial":    total,
			"rule":                   "one obligation per (rule, construct) enumerated from the type-checked SSA program of /repo; distinct = distinct (rule, construct) keys; all are non-trivial (each names a concrete call site, branch or function)",
			"obligations_per_rule":   ruleCount,
			"samples":                samples,
			"configurations":         cfgNames,
			"packages_loaded":        nPkgs,
			"production_functions":   nFuncs,
			"functions_analysed":     fnList,
			"ltx_version":            ltxVer,
			"exhaustive":             true,
			"notes":                  notes,
			"checker_cmd":            "bin/lsverify check -property " + spec.ID + " -tier " + *tier,
			"repo":                   *repo,
		},
		Assumptions: append([]string{
			"go/types, go/ssa and go/packages (x/tools v0.50.0) model the Go semantics of the loaded source faithfully",
			"the configuration(s) listed under coverage.configurations are the ones built; cgo-only and SQLITE3VFS_LOADABLE_EXT code is out of scope",
		}, spec.Assumptions...),
		WallS:      time.Since(t0).Seconds(),
		Violations: nViol,
	}
	if selftest != nil {
		ev.Coverage["checker_selftest"] = selftest
		ev.WallS = time.Since(t0).Seconds()
	}
	evPath := filepath.Join(home, "evidence", spec.ID+".json")
	if err := writeJSON(evPath, ev); err != nil {
		fmt.Fprintln(os.Stderr, "write evidence:", err)
		return 2
	}
	fmt.Printf("%s tier=%s configs=%d obligations=%d ok=%d known=%d violations=%d info=%d wall=%.1fs\n",
		spec.ID, *tier, len(cfgNames), total, nOK, nKnown, nViol, nInfo, time.Since(t0).Seconds())
	for _, l := range violLines {
		fmt.Println(l)
	}
	if nViol > 0 {
		return 1
	}
	return 0
}

func cmdExplain(args []string) int {
	if len(args) < 1 {
		usage()
	}
	data, err := os.ReadFile(args[0])
	if err != nil {
		fmt.Fprintln(os.Stderr, err)
		return 2
	}
	var rec struct {
		Obligation Obl    `json:"obligation"`
		All        []Obl  `json:"all_configs"`
		Repo       string `json:"repo"`
		Tier       string `json:"tier"`
	}
	if err := json.Unmarshal(data, &rec); err != nil {
		fmt.Fprintln(os.Stderr, err)
		return 2
	}
	spec := registry[rec.Obligation.Prop]
	if spec == nil {
		fmt.Fprintln(os.Stderr, "unknown property in replay file")
		return 2
	}
	if rec.Repo == "" {
		rec.Repo = "/repo"
	}
	fmt.Printf("re-deciding %s on %s\n", rec.Obligation.Key(), rec.Repo)
	p, err := Load(LoadConfig{Dir: rec.Repo, Tags: "vfs"})
	if err != nil {
		fmt.Fprintln(os.Stderr, err)
		return 2
	}
	c := runProperty(spec, p, "quick")
	found := false
	rc := 0
	for _, o := range c.Obls {
		if o.Key() != rec.Obligation.Key() {
			continue
		}
		found = true
		fmt.Printf("%s  %s %s @ %s\n  %s\n", o.Status, o.Rule, o.Construct, o.Pos, o.Detail)
		for _, s := range o.Path {
			fmt.Println("    " + s)
		}
		if o.Status != StOK && o.Status != StInfo {
			rc = 1
		}
	}
	if !found {
		fmt.Println("obligation no longer produced on this tree (construct gone)")
		return 1
	}
	return rc
}

func joinNonEmpty(parts ...string) string {
	var out []string
	for _, p := range parts {
		if p != "" {
			out = append(out, p)
		}
	}
	return strings.Join(out, "; ")
}
