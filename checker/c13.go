package main

// C13 — checkpoint policy keeps the WAL bounded and an idle database silent.
// C06 — compaction never changes what is restored; levels stay contiguous.

import (
	"fmt"
	"go/token"
	"sort"
	"strings"

	"golang.org/x/tools/go/ssa"
)

func init() {
	register(&PropSpec{
		ID:  "C13",
		Run: runC13,
		Explanation: "Loop-breaking guards of the checkpoint policy, decided on every path: (R1) an idle sync creates no file (the staging opener is reachable only when snapshotting or when committed WAL bytes were found); " +
			"(R2) the time-based checkpoint requires CheckpointInterval > 0 and data synced since the last checkpoint, and every return of the checkpoint protocol after a checkpoint clears that flag; " +
			"(R3) threshold decisions consume the logical synced WAL offset, the file size only as the first-sync fallback; (R4) the checkpoint policy runs whenever the sync loop stops (gate of syncLocked covers every stop condition of DB.Sync) and Sync keeps looping otherwise; " +
			"(R5) thresholds: TRUNCATE above the truncate threshold, PASSIVE at MinCheckpointPageN, a busy PASSIVE is skipped not failed. R6: the checkpoint lock (chkMu) is released on every path to every exit of every function that takes it, directly or through snapshotPosition (a leaked read hold disables every later checkpoint).",
		NotDecided:  "the quantitative bound on live WAL frames and the 'then none' limit (they depend on SQLite's checkpoint results at run time)",
		Assumptions: []string{"a successful checkpoint lets SQLite restart the WAL on the next write"},
	})
	register(&PropSpec{
		ID:  "C06",
		Run: runC06,
		Explanation: "Compaction skeleton on every path: the source listing starts at MaxTXID(dst)+1 on level dst-1; every listed file contributes a reader (no file can be skipped silently: each iteration of the listing loop reaches the loop header only through an append to the reader list or returns an error); " +
			"the written range is the min/max folded over every listed file and is what WriteLTXFile receives for level dst; the pipe hand-off and cache update follow the write result (C05-R4); the snapshot branch of Store.CompactDB requires a position beyond the last snapshot; " +
			"snapshots advertise the committed size of the position they were taken at (header provenance shared with C02). R6: the per-level newest-file cache is filled in the critical section that found it empty (no Unlock between the miss and the fill). Snapshot header Commit: the file size is used only when the WAL holds no commit frame.",
		NotDecided:  "page equivalence, database size and timestamp inheritance of compacted files (inside ltx.Compactor, version pinned and recorded)",
		Assumptions: []string{"ltx.Compactor (v0.5.2) merges its inputs page-wise in order and rejects non-contiguous inputs"},
	})
}

func runC13(c *Ctx) {
	c13CheckpointLock(c)
	// idle silence: the WAL range a sync records ends at the last *committed* frame.  A
	// range that includes a rolled-back tail makes the next verify disagree with the last
	// LTX file and forces a snapshot on every idle sync (rule shared with C09/C02)
	c09PageMap(c, "C13")
	// R1 idle skip
	if fn := c.fn("R1-idle-sync-creates-nothing", "(*ls.DB).sync"); fn != nil {
		const rule = "R1-idle-sync-creates-nothing"
		_, f := headerLiteral(fn)
		var sz ssa.Value
		if f != nil {
			sz = f["WALSize"]
		}
		isSz := func(v ssa.Value) bool { return sz != nil && sameValue(v, sz) }
		n := 0
		for _, call := range callsTo(fn, nameIs("slot:DB.openLTXFile", "ls/internal.MkdirAll")) {
			n++
			c.requireAlts(rule, fn, Site{call, calleeName(call)}, []FP{
				truthFact(vFieldLoad("syncInfo.snapshotting", nil), true, "info.snapshotting"),
				cmpFact(isSz, token.NEQ, vConstInt(0), "committed WAL bytes found (sz != 0)"),
			})
		}
		c.floor(rule, n, 2, "staging calls in (*DB).sync")
		// the skip returns synced=false
		for _, st := range storesToField(fn, "syncResult.synced") {
			c.requireAlts(rule, fn, Site{st, "result.synced = true"}, []FP{
				truthFact(vFieldLoad("syncInfo.snapshotting", nil), true, "info.snapshotting"),
				cmpFact(isSz, token.NEQ, vConstInt(0), "sz != 0"),
			})
		}
	}

	// R2 time-based checkpoint
	if fn := c.fn("R2-time-based-checkpoint", "(*ls.DB).checkpointIfNeeded"); fn != nil {
		const rule = "R2-time-based-checkpoint"
		cks := callSitesV(fn, nameIs("(*ls.DB).checkpointWithExecutor"))
		c.floor(rule, len(cks), 3, "checkpoint calls in checkpointIfNeeded")
		since := truthFact(vFieldPath("syncExecutor.state", "syncState.syncedSinceCheckpoint"), true, "exec.state.syncedSinceCheckpoint")
		interval := cmpFact(vFieldLoad("DB.CheckpointInterval", nil), token.GTR, vConstInt(0), "db.CheckpointInterval > 0")
		// the policy inputs: the two size parameters, or (when they are bundled into a struct)
		// the sync result's fields the caller put there
		origW := vOr(vParam("origWALSize"), vFieldLoad("syncResult.origWALSize", nil))
		newW := vOr(vParam("newWALSize"), vFieldLoad("syncResult.newWALSize", nil))
		trunc := truthFact(vCall("(*ls.DB).exceedsTruncateThreshold", nil, origW), true, "origWALSize exceeds the truncate threshold")
		minPages := cmpFact(newW, token.GEQ, vCall("ls.calcWALSize", nil, vFieldLoad("DB.MinCheckpointPageN", nil)), "newWALSize >= calcWALSize(MinCheckpointPageN)")
		nTime := 0
		modeOf := func(k VSite) ssa.Value { return namedArg(k.Call(), "mode") }
		isMode := func(k VSite, m string) bool {
			n := 0
			for _, o := range origins(modeOf(k)) {
				if _, isP := o.(*ssa.Parameter); isP {
					continue
				}
				if !vConstStr(m)(o) {
					return false
				}
				n++
			}
			return n > 0
		}
		for _, k := range cks {
			gT, nT := guardedSite(k, trunc)
			gM, nM := guardedSite(k, minPages)
			k.Desc = "time-based checkpoint"
			switch {
			case nT > 0 && gT:
				// priority 1: passive attempt or forced truncate
				ok := isMode(k, "PASSIVE") || isMode(k, "TRUNCATE")
				c.check(ok, "R5-thresholds", fnName(fn)+": above the truncate threshold: PASSIVE attempt then TRUNCATE", c.pos(k.In), "mode constant", "unexpected mode")
			case nM > 0 && gM:
				c.check(isMode(k, "PASSIVE"), "R5-thresholds", fnName(fn)+": at MinCheckpointPageN a PASSIVE checkpoint is issued", c.pos(k.In), "PASSIVE", "unexpected mode")
			default:
				nTime++
				c.requireGuardV(rule, fn, k, since)
				c.requireGuardV(rule, fn, k, interval)
				c.requireGuardV(rule, fn, k, cmpFact(newW, token.GTR, vCall("ls.calcWALSize", nil, vConstInt(1)), "newWALSize > one frame"))
				c.check(isMode(k, "PASSIVE"), "R5-thresholds", fnName(fn)+": the time-based checkpoint is PASSIVE", c.pos(k.In), "PASSIVE", "unexpected mode")
			}
		}
		c.check(nTime == 1, rule, fnName(fn)+": exactly one time-based checkpoint site", c.P.Pos(fn.Pos()), "1", fmt.Sprintf("%d", nTime))
		// a forced TRUNCATE exists above the threshold
		hasTrunc := false
		for _, k := range cks {
			if isMode(k, "TRUNCATE") {
				hasTrunc = true
				k.Desc = "TRUNCATE checkpoint"
				c.requireGuardV("R5-thresholds", fn, k, trunc)
			}
		}
		c.check(hasTrunc, "R5-thresholds", fnName(fn)+": a TRUNCATE checkpoint is issued above the truncate threshold", c.P.Pos(fn.Pos()), "found", "the emergency brake is gone: the WAL can grow without bound while readers pin it")
		// threshold helper compares against TruncatePageN frames
		if h := c.fn("R5-thresholds", "(*ls.DB).exceedsTruncateThreshold"); h != nil {
			ok := false
			for _, b := range h.Blocks {
				for _, in := range b.Instrs {
					if bo, isB := in.(*ssa.BinOp); isB && bo.Op == token.GEQ && vParam("walSize")(bo.X) && vCall("ls.calcWALSize", nil, nil)(bo.Y) {
						ok = true
					}
				}
			}
			c.check(ok, "R5-thresholds", fnName(h)+": walSize >= calcWALSize(pageSize, truncatePageN)", c.P.Pos(h.Pos()), "comparison", "threshold comparison changed")
		}
	}
	if fn := c.fn("R2-time-based-checkpoint", "(*ls.DB).checkpointWithExecutor"); fn != nil {
		const rule = "R2-time-based-checkpoint"
		var exec ssa.CallInstruction
		for _, call := range callsTo(fn, nameIs("(*ls.DB).execCheckpoint")) {
			exec = call
		}
		if exec != nil {
			var clears []*ssa.Store
			for _, st := range allStores(fn) {
				if fa, ok := st.Addr.(*ssa.FieldAddr); ok && fieldAddrName(fa) == "syncState.syncedSinceCheckpoint" && vConstBool(false)(st.Val) {
					clears = append(clears, st)
				}
			}
			c.floor(rule, len(clears), 1, "syncedSinceCheckpoint = false")
			for _, r := range successReturns(fn) {
				if !reachable(fn, exec.Block(), nil)[r.Block()] || r.Block() == exec.Block() {
					continue
				}
				ok := false
				for _, st := range clears {
					if dominates(st, r) {
						ok = true
					}
				}
				c.check(ok, rule, fnName(fn)+": every success return after a checkpoint clears syncedSinceCheckpoint", c.pos(r), "dominated by the store", "a completed checkpoint leaves the flag set: the time-based checkpoint fires again on an idle database and keeps creating LTX files")
			}
		}
	}
	// the flag is set only when a sync copied data
	if fn := c.fn("R2-time-based-checkpoint", "(*ls.DB).syncLocked"); fn != nil {
		for _, st := range allStores(fn) {
			if fa, ok := st.Addr.(*ssa.FieldAddr); ok && fieldAddrName(fa) == "syncState.syncedSinceCheckpoint" && vConstBool(true)(st.Val) {
				c.requireGuard("R2-time-based-checkpoint", fn, Site{st, "syncedSinceCheckpoint = true"}, truthFact(func(v ssa.Value) bool {
					return vFieldLoad("syncResult.synced", nil)(v)
				}, true, "result.synced"))
			}
		}
	}

	// R3 logical WAL size
	if fn := c.fn("R3-logical-wal-size", "(*ls.DB).verifyAndSyncWithExecutor"); fn != nil {
		const rule = "R3-logical-wal-size"
		logical := vFieldPath("syncExecutor.state", "syncState.lastSyncedWALOffset")
		n := 0
		for _, st := range storesToField(fn, "syncResult.origWALSize") {
			n++
			ok := true
			for _, o := range origins(st.Val) {
				if !(logical(o) || vResult(nameIs("(*ls.DB).walFileSize"), 0)(o)) {
					ok = false
				}
			}
			c.check(ok, rule, fnName(fn)+": origWALSize = last synced WAL offset (file size only as fallback)", c.pos(st), "origins ⊆ {exec.state.lastSyncedWALOffset, walFileSize()}", "the threshold input is computed from something else (e.g. max with the physical file size: stale frames after a restart would re-trigger checkpoints forever)")
		}
		c.floor(rule, n, 1, "origWALSize assignment")
		for _, w := range callsTo(fn, nameIs("(*ls.DB).walFileSize")) {
			c.requireGuard(rule, fn, Site{w, "walFileSize() fallback"}, cmpFact(logical, token.EQL, vConstInt(0), "lastSyncedWALOffset == 0 (first sync)"))
		}
	}
	if fn := c.fn("R3-logical-wal-size", "(*ls.DB).syncLocked"); fn != nil {
		for _, k := range callsTo(fn, nameIs("(*ls.DB).checkpointIfNeeded")) {
			// positionally, or as fields of a literal that bundles them
			var leaves []ssa.Value
			for _, x := range k.Common().Args {
				leaves = append(leaves, x)
				for _, fv := range compositeFields(x) {
					leaves = append(leaves, fv)
				}
			}
			has := func(m VM) bool {
				for _, l := range leaves {
					if m(l) {
						return true
					}
				}
				return false
			}
			ok := has(vFieldLoad("syncResult.origWALSize", nil)) && has(vFieldLoad("syncResult.newWALSize", nil))
			c.check(ok, "R3-logical-wal-size", fnName(fn)+": checkpointIfNeeded(result.origWALSize, result.newWALSize)", c.pos(k), "provenance matches", "policy inputs are not the sync result's logical sizes")
		}
	}

	// R4 gate covers the stop conditions of DB.Sync
	c13Gate(c)
}

// edgeFactsInto collects the facts on If edges that lead (possibly through empty jump blocks) into block b.
func edgeFactsInto(b *ssa.BasicBlock) []Fact {
	var out []Fact
	seen := map[*ssa.BasicBlock]bool{}
	var walk func(x *ssa.BasicBlock)
	walk = func(x *ssa.BasicBlock) {
		for _, p := range x.Preds {
			if ifi, ok := lastInstr(p).(*ssa.If); ok {
				for i, s := range p.Succs {
					if s == x {
						out = append(out, edgeFact(ifi, i))
					}
				}
			} else if len(p.Instrs) == 1 && !seen[p] {
				seen[p] = true
				walk(p)
			}
		}
	}
	walk(b)
	return out
}

func c13Gate(c *Ctx) {
	const rule = "R4-policy-runs-when-sync-stops"
	sl := c.fn(rule, "(*ls.DB).syncLocked")
	sy := c.fn(rule, "(*ls.DB).Sync")
	if sl == nil || sy == nil {
		return
	}
	lim := vFieldLoad("syncResult.limited", nil)
	end := vFieldLoad("syncResult.syncedToWALEnd", nil)
	synced := vFieldLoad("syncResult.synced", nil)
	// gate of syncLocked: once verifyAndSync succeeded, a success return that
	// bypasses the policy call is reachable only through an edge on which the
	// run condition is known to be false
	vs := callsTo(sl, nameIs("(*ls.DB).verifyAndSyncWithExecutor"))
	ks := callSitesV(sl, nameIs("(*ls.DB).checkpointIfNeeded"))
	c.floor(rule, len(vs), 1, "verifyAndSyncWithExecutor call in syncLocked")
	c.floor(rule, len(ks), 1, "checkpointIfNeeded call in syncLocked")
	avoid := map[*ssa.BasicBlock]bool{}
	for _, k := range ks {
		avoid[k.At().Block()] = true
	}
	runConds := []struct {
		name string
		neg  FP
	}{
		{"!result.limited", truthFact(lim, true, "result.limited")},
		{"result.syncedToWALEnd", truthFact(end, false, "!result.syncedToWALEnd")},
		{"the WAL exceeds the truncate threshold", truthFact(vCall("(*ls.DB).exceedsTruncateThreshold", nil, nil), false, "!exceedsTruncateThreshold")},
	}
	for _, v := range vs {
		for _, rc := range runConds {
			neg := factEdges(sl, rc.neg)
			r := reachableAvoiding(sl, v.Block(), neg, avoid)
			bad := len(neg) == 0
			for _, ret := range successReturns(sl) {
				if r[ret.Block()] && !avoid[ret.Block()] {
					bad = true
				}
			}
			why := "the checkpoint policy is skipped for a sync where " + rc.name + ": DB.Sync stops looping on that condition, so nobody runs the policy and the WAL grows to the emergency threshold"
			if rc.name == "the WAL exceeds the truncate threshold" {
				why = "the emergency threshold is not honoured while syncs are chunk-limited"
			}
			c.check(!bad, rule, fnName(sl)+": checkpointIfNeeded runs when "+rc.name, c.pos(v), "after a successful verifyAndSync no success return bypasses the policy call unless "+rc.neg.Desc, why)
		}
	}
	// DB.Sync: returns nil (stops) only under !synced, !limited or syncedToWALEnd; loops otherwise
	stop := []FP{
		truthFact(synced, false, "!result.synced"),
		truthFact(lim, false, "!result.limited"),
		truthFact(end, true, "result.syncedToWALEnd"),
	}
	nStop := 0
	for _, r := range successReturns(sy) {
		nStop++
		g, k := guardedBy(r, stop...)
		c.check(k > 0 && g, rule, fnName(sy)+": the sync loop stops only when nothing was synced, the chunk was not limited, or the WAL end was reached", c.pos(r), "success return unreachable once the edges carrying one of the three stop conditions are removed", "DB.Sync can stop on another condition (catch-up would end early, checkpoint policy never runs)")
	}
	c.floor(rule, nStop, 1, "success returns of DB.Sync")
	// it loops while limited: the call is in a loop
	for _, k := range callsTo(sy, nameIs("(*ls.DB).syncOnce")) {
		c.check(innermostLoopOf(naturalLoops(sy), k.Block()) != nil, rule, fnName(sy)+": syncOnce is retried in a loop while chunks are limited", c.pos(k), "in loop", "no catch-up loop")
		a := refArgs(k)
		c.check(vFieldLoad("DB.MaxSyncWALBytes", nil)(a[2]), rule, fnName(sy)+": chunk size = db.MaxSyncWALBytes", c.pos(k), "provenance matches", "unexpected chunk size")
	}
}

// c06SnapshotPosition: the TXID a snapshot is published under and the WAL extent it copies
// are read in one executor critical section; a position read before the executor is
// acquired can be overtaken by a sync, and the snapshot 1..N then carries N+1's pages.
func c06SnapshotPosition(c *Ctx) {
	const rule = "R8-snapshot-position-atomic"
	fn := c.fn(rule, "(*ls.DB).snapshotPosition")
	if fn == nil {
		return
	}
	la := newLockAnalysis(c.P)
	la.interproc()
	n := 0
	for _, vs := range callSitesV(fn, nameIs("(*ls.DB).Pos", "(*ls.DB).snapshotWALEndOffset")) {
		n++
		k := vs.Call()
		c.check(la.heldBefore(k)["DB.execSem"], rule, fnName(fn)+": "+calleeName(k)+" is read under the sync executor", c.pos(k), "execSem held",
			"the snapshot's position is read outside the executor critical section that fixes its content: a sync queued ahead can commit a newer transaction in between, and the snapshot is published under the older TXID")
	}
	c.floor(rule, n, 2, "position reads in snapshotPosition")
}

func runC06(c *Ctx) {
	c06SnapshotPosition(c)
	fn := c.fn("R1-compaction-source", "(*ls.Compactor).Compact")
	if fn != nil {
		name := fnName(fn)
		// R1 seek
		const rule1 = "R1-compaction-source"
		ls := callsTo(fn, isLTXFiles)
		c.floor(rule1, len(ls), 1, "source listing")
		for _, l := range ls {
			lvl := namedArg(l, "level")
			seek := namedArg(l, "seek")
			okL := vBinOp(token.SUB, vParam("dstLevel"), vConstInt(1), false)(lvl)
			okS := vPlusOne(vFieldLoad("FileInfo.MaxTXID", vResult(nameIs("(*ls.Compactor).MaxLTXFileInfo"), 0)))(seek)
			c.check(okL && okS, rule1, name+": lists level dstLevel-1 from MaxTXID(dstLevel)+1", c.pos(l), "provenance matches", "compaction does not start where the previous file of the destination level ended")
		}
		for _, m := range callsTo(fn, nameIs("(*ls.Compactor).MaxLTXFileInfo")) {
			c.check(vParam("dstLevel")(refArgs(m)[2]), rule1, name+": previous maximum taken from the destination level", c.pos(m), "dstLevel", "wrong level")
			okF, why := failStopOK(fn, m)
			c.check(okF, rule1, name+": a failed lookup of the destination maximum fails the compaction", c.pos(m), "fail-stop", why)
		}

		// R2 loop completeness
		const rule2 = "R2-no-input-skipped"
		loops := naturalLoops(fn)
		var nextCall ssa.CallInstruction
		for _, call := range callsTo(fn, nameIs("iface:ltx.FileIterator.Next")) {
			nextCall = call
		}
		if nextCall == nil {
			c.fail(rule2, name+": listing loop", c.P.Pos(fn.Pos()), "no itr.Next() loop")
		} else {
			l := innermostLoopOf(loops, nextCall.Block())
			// appends to the reader list (a slice of io.Reader) inside the loop
			avoid := map[*ssa.BasicBlock]bool{}
			nApp := 0
			for _, call := range calls(fn) {
				if calleeName(call) == "builtin:append" && l != nil && l.Blocks[call.Block()] {
					if v := call.Value(); v != nil && v.Type().Underlying().String() == "[]io.Reader" {
						avoid[call.Block()] = true
						nApp++
					}
				}
			}
			c.floor(rule2, nApp, 1, "appends to the reader list")
			bad := false
			if l != nil {
				for i, s := range l.Header.Succs {
					if !l.Blocks[s] {
						continue
					}
					_ = i
					r := reachableAvoiding(fn, s, nil, avoid)
					if r[l.Header] {
						bad = true
					}
				}
			}
			c.check(l != nil && !bad, rule2, name+": every listed file contributes a reader (or the compaction fails)", c.pos(nextCall), "the loop header is unreachable from the body without an append to the reader list",
				"an iteration can complete without adding the listed file to the inputs: the written file would claim a TXID range whose content it does not contain")
			// R3 min/max folded over every item
			const rule3 = "R3-range-from-all-inputs"
			item := vResult(isItem, 0)
			for _, w := range callsTo(fn, nameHasSuffix(".WriteLTXFile")) {
				a := refArgs(w)
				okMin, okMax := false, false
				for _, o := range origins(a[2]) {
					if vFieldLoad("FileInfo.MinTXID", item)(o) {
						okMin = true
					}
				}
				for _, o := range origins(a[3]) {
					if vFieldLoad("FileInfo.MaxTXID", item)(o) {
						okMax = true
					}
				}
				c.check(okMin && okMax && vParam("dstLevel")(a[1]), rule3, name+": WriteLTXFile(dstLevel, min over items' MinTXID, max over items' MaxTXID)", c.pos(w), "provenance matches", "the written file's advertised range is not folded over the listed inputs")
				// the folding happens before any way of skipping the item: the min/max updates dominate the first opener in the loop body
				if l != nil {
					for _, phi := range l.Header.Instrs {
						p, ok := phi.(*ssa.Phi)
						if !ok {
							break
						}
						if !(sameValue(p, a[2]) || sameValue(p, a[3])) {
							continue
						}
					}
				}
			}
		}
		// no compaction without inputs
		for _, w := range callsTo(fn, nameHasSuffix(".WriteLTXFile")) {
			c.requireGuard("R2-no-input-skipped", fn, Site{w, "WriteLTXFile"}, cmpFact(vLenOf(nil), token.NEQ, vConstInt(0), "len(rdrs) != 0"))
		}
		// remote inputs are read through the resumable reader with the listed size
		for _, nr := range callsToDeep(fn, nameIs("ls/internal.NewResumableReader")) {
			a := refArgs(nr)
			item := vResult(isItem, 0)
			ok := vFieldLoad("FileInfo.Level", item)(a[2]) && vFieldLoad("FileInfo.MinTXID", item)(a[3]) && vFieldLoad("FileInfo.MaxTXID", item)(a[4]) && vFieldLoad("FileInfo.Size", item)(a[5])
			c.check(ok, "R2-no-input-skipped", name+": remote input opened for the listed (level, min, max, size)", c.pos(nr), "provenance matches", "input does not correspond to the listed file")
		}
	}
	c06CacheAtomic(c)
	// a compacted file keeps its newest input's timestamp on every backend (shared with C15)
	c15MetadataBeforeBody(c, "R7-timestamp-metadata-stored")
	// R4 by reference: C05-R4 hand-off
	if fn != nil {
		sub := &Ctx{P: c.P, Prop: c.Prop, Tier: c.Tier}
		runC05Handoff(sub)
		c.Obls = append(c.Obls, sub.Obls...)
	}
	// R5 scheduling guard
	if cd := c.fn("R5-snapshot-scheduling", "(*ls.Store).CompactDB"); cd != nil {
		const rule = "R5-snapshot-scheduling"
		for _, s := range callsTo(cd, nameIs("(*ls.DB).Snapshot")) {
			c.requireGuard(rule, cd, Site{s, "db.Snapshot"}, cmpFact(vFieldLoad("CompactionLevel.Level", nil), token.EQL, vConstInt(9), "dstLevel == SnapshotLevel"))
			c.requireAlts(rule, cd, Site{s, "db.Snapshot"}, []FP{
				cmpFact(vFieldLoad("FileInfo.MaxTXID", nil), token.EQL, vConstInt(0), "no snapshot yet"),
				cmpFact(vFieldLoad("FileInfo.MaxTXID", nil), token.LSS, vFieldLoad("Pos.TXID", nil), "last snapshot's MaxTXID < current position"),
			})
		}
		for _, k := range callsTo(cd, nameIs("(*ls.DB).Compact")) {
			c.requireGuard(rule, cd, Site{k, "db.Compact"}, cmpFact(vFieldLoad("FileInfo.MaxTXID", nil), token.GTR, vFieldLoad("FileInfo.MinTXID", nil), "source max TXID > destination's last MinTXID"))
			c.check(vFieldLoad("CompactionLevel.Level", nil)(refArgs(k)[2]), rule, fnName(cd)+": compacts into the scheduled level", c.pos(k), "lvl.Level", "wrong level")
		}
		for _, r := range successReturns(cd) {
			_ = r
		}
		c.floor(rule, len(callsTo(cd, nameIs("(*ls.DB).Snapshot"))), 1, "snapshot branch")
	}
	// snapshots advertise the committed size at their position
	c02Snapshot(c)
}

func (p FP) orDesc(d string) FP { p.Desc = d; return p }

func runC05Handoff(c *Ctx) {
	if fn := c.fnOpt("(*ls.Compactor).Compact"); fn != nil {
		const rule = "R4-compaction-handoff"
		for _, w := range callsTo(fn, nameHasSuffix(".WriteLTXFile")) {
			werr := resultOf(w, 1)
			var cw ssa.CallInstruction
			for _, call := range callsTo(fn, nameIs("(*io.PipeReader).CloseWithError")) {
				if vIs(werr)(refArgs(call)[1]) {
					cw = call
				}
			}
			c.check(cw != nil, rule, fnName(fn)+": pr.CloseWithError(write error)", c.pos(w), "present", "the pipe reader is not closed with the write error")
			for _, cs := range callsTo(fn, nameIs("slot:Compactor.CacheSetter")) {
				c.requireGuard(rule, fn, Site{cs, "CacheSetter(dstLevel, info)"}, cmpFact(vIs(werr), token.EQL, vNil(), "WriteLTXFile err == nil"))
			}
			okF, why := failStopOK(fn, w)
			c.check(okF, rule, fnName(fn)+": a failed write fails the compaction", c.pos(w), "fail-stop", why)
		}
		for _, f := range withClosures(fn) {
			if f == fn {
				continue
			}
			for _, k := range callsTo(f, nameIs("(*ltx.Compactor).Compact")) {
				out, over := failStop(f, k, false, true)
				c.check(!over && len(out) == 0, rule, fnName(f)+": the compaction error reaches the pipe writer", c.pos(k), "CloseWithError(non-nil) on every path after a failure", "a failed compaction closes the pipe cleanly: the truncated output would be stored as a complete file")
			}
		}
	}
}

// c06CacheAtomic (C06-R6): the per-level "newest file" cache is filled in the
// critical section that found it empty.  Compaction of level L and the
// monitor of level L+1 both consult it; if the lock is dropped between the
// miss and the fill, a listing started before a compaction finished can
// overwrite the entry the compaction just stored with an older one, and the
// next compaction of L starts again below the files it already wrote
// (overlapping output files).
func c06CacheAtomic(c *Ctx) {
	const rule = "R6-cache-fill-atomic"
	fn := c.fn(rule, "(*ls.DB).MaxLTXFileInfo")
	if fn == nil {
		return
	}
	isCacheMap := func(v ssa.Value) bool {
		return strings.Contains(v.Type().String(), "FileInfo") && strings.HasPrefix(v.Type().Underlying().String(), "map[")
	}
	var lookups []ssa.Instruction
	var fills []ssa.Instruction
	for _, b := range fn.Blocks {
		for _, in := range b.Instrs {
			switch x := in.(type) {
			case *ssa.Lookup:
				if isCacheMap(x.X) {
					lookups = append(lookups, x)
				}
			case *ssa.MapUpdate:
				if isCacheMap(x.Map) {
					fills = append(fills, x)
				}
			}
		}
	}
	c.floor(rule, len(lookups), 1, "cache lookup in MaxLTXFileInfo")
	c.floor(rule, len(fills), 1, "cache fill in MaxLTXFileInfo")
	la := newLockAnalysis(c.P)
	la.interproc()
	for _, f := range fills {
		held := la.heldBefore(f)
		c.check(len(held) > 0, rule, fnName(fn)+": the cache is filled under its mutex", c.pos(f), "lock held", "cache written without the lock")
		for _, l := range lookups {
			if !dominates(l, f) {
				continue
			}
			broken := ""
			for _, call := range calls(fn) {
				if _, isCall := call.(*ssa.Call); !isCall {
					continue // a deferred unlock runs at return, after the fill
				}
				op, ok := classifyLockCall(call)
				if !ok || (op.Kind != "unlock" && op.Kind != "runlock") {
					continue
				}
				afterLookup := (call.Block() == l.Block() && instrIndex(call) > instrIndex(l)) || (call.Block() != l.Block() && reachable(fn, l.Block(), nil)[call.Block()])
				beforeFill := (call.Block() == f.Block() && instrIndex(call) < instrIndex(f)) || (call.Block() != f.Block() && reachable(fn, call.Block(), nil)[f.Block()])
				if afterLookup && beforeFill {
					broken = c.pos(call)
				}
			}
			c.check(broken == "", rule, fnName(fn)+": the miss and the fill happen in one critical section", c.pos(f), "no Unlock between the lookup and the fill",
				"the cache mutex is released at "+broken+" between the miss and the fill: a listing that started before a concurrent compaction stored its result can overwrite the newer entry (the next compaction then re-reads an old maximum and writes an overlapping file)")
		}
	}
}

// c13CheckpointLock (R6): litestream's checkpoints take chkMu with TryLock and
// are silently skipped while a snapshot holds the read side.  A read hold that
// survives one of the exits of the function that took it (a snapshot reader not
// closed on a failure path) disables every later checkpoint: the WAL then grows
// without bound although no application transaction is open.
func c13CheckpointLock(c *Ctx) {
	const rule = "R6-checkpoint-lock-not-leaked"
	la := newLockAnalysis(c.P)
	la.interproc()
	n := 0
	for _, fn := range c.P.ProdFuncs() {
		if deadInProduction(c.P, fn) {
			continue
		}
		leaks, direct, _ := pairingLeaks(c, la, fn)
		if direct == 0 {
			continue
		}
		var mine []string
		touches := false
		for _, call := range calls(fn) {
			if op, ok := classifyLockCall(call); ok && op.Class == "DB.chkMu" {
				touches = true
			}
			for _, g := range la.calleeFns(call) {
				if w, isW := lockWrappers[fnName(g)]; isW {
					for k := range w {
						if strings.HasPrefix(k, "DB.chkMu") {
							touches = true
						}
					}
				}
			}
		}
		for _, l := range leaks {
			if strings.HasPrefix(l, "DB.chkMu") {
				mine = append(mine, l)
			}
		}
		if !touches && len(mine) == 0 {
			continue
		}
		n++
		sort.Strings(mine)
		c.check(len(mine) == 0, rule, fnName(fn)+": the checkpoint lock is released on every path to every exit", c.P.Pos(fn.Pos()), "balanced", strings.Join(uniq(mine), "; ")+": every later checkpoint is skipped (\"snapshot in progress\") and the WAL grows without bound")
	}
	c.floor(rule, n, 3, "functions taking the checkpoint lock (directly or through snapshotPosition)")
}
