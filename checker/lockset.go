package main

func lockRulesC02(c *Ctx) {}
