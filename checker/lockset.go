package main

// E4 — locks as typestate: lock classes are struct fields; a forward dataflow
// over the SSA CFG computes the must-held and may-held lock sets, with
// function summaries for wrappers that return holding a lock.

import (
	"fmt"
	"go/token"
	"go/types"
	"sort"
	"strings"

	"golang.org/x/tools/go/ssa"
)

type lockOp struct {
	Class string
	Kind  string // "lock", "rlock", "unlock", "runlock", "trylock", "tryrlock", "acquire", "tryacquire", "release"
}

// lockClassOf names the lock a receiver address denotes: "DB.mu", "DB.pos.Mutex", "DB.execSem".
func lockClassOf(v ssa.Value) string {
	// pointer-typed field load (semaphores): *(&x.f)
	if u, ok := v.(*ssa.UnOp); ok && u.Op == token.MUL {
		if fa, ok := u.X.(*ssa.FieldAddr); ok {
			return fieldChain(fa)
		}
	}
	if fa, ok := v.(*ssa.FieldAddr); ok {
		return fieldChain(fa)
	}
	for _, o := range origins(v) {
		if o == v {
			continue
		}
		if s := lockClassOf(o); s != "" {
			return s
		}
	}
	if g, ok := v.(*ssa.Global); ok {
		return "global:" + shortName(g.String())
	}
	return ""
}

func fieldChain(fa *ssa.FieldAddr) string {
	name := fieldAddrName(fa)
	if inner, ok := fa.X.(*ssa.FieldAddr); ok {
		f := name[strings.IndexByte(name, '.')+1:]
		return fieldChain(inner) + "." + f
	}
	return name
}

func classifyLockCall(c ssa.CallInstruction) (lockOp, bool) {
	nm := calleeName(c)
	a := c.Common().Args
	var kind string
	switch nm {
	case "(*sync.Mutex).Lock", "(*sync.RWMutex).Lock":
		kind = "lock"
	case "(*sync.RWMutex).RLock":
		kind = "rlock"
	case "(*sync.Mutex).Unlock", "(*sync.RWMutex).Unlock":
		kind = "unlock"
	case "(*sync.RWMutex).RUnlock":
		kind = "runlock"
	case "(*sync.Mutex).TryLock", "(*sync.RWMutex).TryLock":
		kind = "trylock"
	case "(*sync.RWMutex).TryRLock":
		kind = "tryrlock"
	case "(*golang.org/x/sync/semaphore.Weighted).Acquire":
		kind = "acquire"
	case "(*golang.org/x/sync/semaphore.Weighted).TryAcquire":
		kind = "tryacquire"
	case "(*golang.org/x/sync/semaphore.Weighted).Release":
		kind = "release"
	case "ls/internal.LockFileExclusive":
		return lockOp{"filelock", "acquire"}, true
	case "ls/internal.UnlockFile":
		return lockOp{"filelock", "release"}, true
	default:
		return lockOp{}, false
	}
	if len(a) == 0 {
		return lockOp{}, false
	}
	cls := lockClassOf(a[0])
	if cls == "" {
		cls = "?" + a[0].Type().String()
	}
	return lockOp{cls, kind}, true
}

// lock identity in sets: class + mode ("W"/"R")
func lk(class string, read bool) string {
	if read {
		return class + "(R)"
	}
	return class
}

type lockSet map[string]bool

func (s lockSet) clone() lockSet {
	n := lockSet{}
	for k := range s {
		n[k] = true
	}
	return n
}
func (s lockSet) String() string {
	var a []string
	for k := range s {
		a = append(a, k)
	}
	sort.Strings(a)
	return "{" + strings.Join(a, ",") + "}"
}
func (s lockSet) hasClass(class string) bool { return s[class] || s[class+"(R)"] }
func intersect(a, b lockSet) lockSet {
	n := lockSet{}
	for k := range a {
		if b[k] {
			n[k] = true
		}
	}
	return n
}
func union(a, b lockSet) lockSet {
	n := a.clone()
	for k := range b {
		n[k] = true
	}
	return n
}
func equalSet(a, b lockSet) bool {
	if len(a) != len(b) {
		return false
	}
	for k := range a {
		if !b[k] {
			return false
		}
	}
	return true
}

// lockSummary of a function: what it holds (beyond its entry set) when it returns.
type lockSummary struct {
	onSuccess lockSet // must-held extra locks at success returns
	onFailure lockSet // may-held extra locks at failure returns
	releases  lockSet // locks released that it did not acquire
	acquires  lockSet // classes blocking-acquired anywhere in its cone (for the order graph)
}

type lockAnalysis struct {
	p        *Prog
	sum      map[*ssa.Function]*lockSummary
	inMust   map[*ssa.Function]map[*ssa.BasicBlock]lockSet
	inMay    map[*ssa.Function]map[*ssa.BasicBlock]lockSet
	entry    map[*ssa.Function]lockSet // must-held at entry (interprocedural)
	deferred map[*ssa.Function]lockSet
	defInstr map[*ssa.Function]map[*ssa.Defer]lockSet
	pairing  bool // pairing mode: a deferred release discharges the obligation at once
	busy     map[*ssa.Function]bool
	order    map[string]map[string]string // A -> B -> witness
}

func newLockAnalysis(p *Prog) *lockAnalysis {
	return &lockAnalysis{p: p, sum: map[*ssa.Function]*lockSummary{}, inMust: map[*ssa.Function]map[*ssa.BasicBlock]lockSet{}, inMay: map[*ssa.Function]map[*ssa.BasicBlock]lockSet{},
		entry: map[*ssa.Function]lockSet{}, deferred: map[*ssa.Function]lockSet{}, defInstr: map[*ssa.Function]map[*ssa.Defer]lockSet{}, busy: map[*ssa.Function]bool{}, order: map[string]map[string]string{}}
}

// calleeFn resolves the function invoked by a call, looking through sync.Once.Do(closure).
func (la *lockAnalysis) calleeFns(c ssa.CallInstruction) []*ssa.Function {
	if calleeName(c) == "(*sync.Once).Do" {
		if mc, ok := c.Common().Args[1].(*ssa.MakeClosure); ok {
			return []*ssa.Function{mc.Fn.(*ssa.Function)}
		}
	}
	if f := c.Common().StaticCallee(); f != nil {
		if la.p.InP(f) && f.Blocks != nil {
			return []*ssa.Function{f}
		}
		return nil
	}
	if c.Common().IsInvoke() {
		return la.resolveInvoke(c.Common().Value, c.Common().Method.Name(), 0)
	}
	return nil
}

// resolveInvoke resolves an interface method call when the receiver value is
// the result of a production function that returns a concrete type wrapped in
// the interface (e.g. the io.ReadCloser returned by SnapshotReader).
func (la *lockAnalysis) resolveInvoke(recv ssa.Value, method string, depth int) []*ssa.Function {
	if depth > 3 {
		return nil
	}
	var out []*ssa.Function
	add := func(t types.Type) {
		if t == nil {
			return
		}
		ms := la.p.SSA.MethodSets.MethodSet(t)
		for i := 0; i < ms.Len(); i++ {
			if ms.At(i).Obj().Name() == method {
				if f := la.p.SSA.MethodValue(ms.At(i)); f != nil && la.p.InP(f) && f.Blocks != nil {
					out = append(out, f)
				}
			}
		}
	}
	for _, o := range origins(recv) {
		var call *ssa.Call
		idx := 0
		switch x := o.(type) {
		case *ssa.Extract:
			call, _ = x.Tuple.(*ssa.Call)
			idx = x.Index
		case *ssa.Call:
			call = x
		case *ssa.Alloc:
			add(x.Type())
			continue
		default:
			if _, isIface := o.Type().Underlying().(*types.Interface); !isIface {
				add(o.Type())
			}
			continue
		}
		if call == nil {
			continue
		}
		g := call.Call.StaticCallee()
		if g == nil || !la.p.InP(g) || g.Blocks == nil {
			continue
		}
		for _, r := range returns(g) {
			if idx >= len(r.Results) {
				continue
			}
			for _, ro := range originsOpt(retOperand(r, idx), true) {
				switch y := ro.(type) {
				case *ssa.MakeInterface:
					add(y.X.Type())
				case *ssa.Extract, *ssa.Call:
					out = append(out, la.resolveInvoke(ro, method, depth+1)...)
				}
			}
		}
	}
	return out
}

// apply transfers one instruction over (must, may); conditional acquisitions are
// returned as pending (value -> lock, polarity) and resolved at the block's If.
type pendingAcq struct {
	val     ssa.Value
	lock    string
	onTrue  bool // bool result: held on the true edge; error result: held on the nil edge
	isError bool
	extra   lockSet // wrapper summaries: several locks
}

func (la *lockAnalysis) step(fn *ssa.Function, in ssa.Instruction, must, may lockSet, pend *[]pendingAcq, record bool) {
	switch x := in.(type) {
	case *ssa.Defer:
		if la.defInstr[fn] == nil {
			la.defInstr[fn] = map[*ssa.Defer]lockSet{}
		}
		if la.defInstr[fn][x] == nil {
			la.defInstr[fn][x] = lockSet{}
		}
		if op, ok := classifyLockCall(x); ok {
			switch op.Kind {
			case "unlock", "release":
				la.deferred[fn][lk(op.Class, false)] = true
				la.defInstr[fn][x][lk(op.Class, false)] = true
				if la.pairing {
					delete(must, lk(op.Class, false))
					delete(may, lk(op.Class, false))
				}
			case "runlock":
				la.deferred[fn][lk(op.Class, true)] = true
				la.defInstr[fn][x][lk(op.Class, true)] = true
				if la.pairing {
					delete(must, lk(op.Class, true))
					delete(may, lk(op.Class, true))
				}
			}
			return
		}
		// deferred closure / method releasing locks
		for _, g := range la.deferTargets(x) {
			s := la.summary(g)
			for k := range s.releases {
				la.deferred[fn][k] = true
				la.defInstr[fn][x][k] = true
				if la.pairing {
					delete(must, k)
					delete(may, k)
				}
			}
		}
	case *ssa.Call:
		if op, ok := classifyLockCall(x); ok {
			switch op.Kind {
			case "lock":
				la.acquireEdge(fn, x, may, op.Class, record)
				must[lk(op.Class, false)] = true
				may[lk(op.Class, false)] = true
			case "rlock":
				la.acquireEdge(fn, x, may, op.Class, record)
				must[lk(op.Class, true)] = true
				may[lk(op.Class, true)] = true
			case "unlock", "release":
				delete(must, lk(op.Class, false))
				delete(may, lk(op.Class, false))
			case "runlock":
				delete(must, lk(op.Class, true))
				delete(may, lk(op.Class, true))
			case "trylock", "tryacquire":
				*pend = append(*pend, pendingAcq{val: x, lock: lk(op.Class, false), onTrue: true})
			case "tryrlock":
				*pend = append(*pend, pendingAcq{val: x, lock: lk(op.Class, true), onTrue: true})
			case "acquire":
				la.acquireEdge(fn, x, may, op.Class, record)
				e := resultOf(x, errResultIndex(x.Call.Signature()))
				if e == nil {
					must[lk(op.Class, false)] = true
					may[lk(op.Class, false)] = true
				} else {
					*pend = append(*pend, pendingAcq{val: e, lock: lk(op.Class, false), isError: true})
				}
			}
			return
		}
		for _, g := range la.calleeFns(x) {
			if g == fn {
				continue
			}
			s := la.summary(g)
			if record {
				for l := range s.acquires {
					for h := range may {
						la.addOrder(h, l, fmt.Sprintf("%s calls %s at %s", fnName(fn), fnName(g), la.p.InstrPos(x)))
					}
				}
			}
			for k := range s.releases {
				delete(must, k)
				delete(may, k)
			}
			if len(s.onSuccess) == 0 && len(s.onFailure) == 0 {
				continue
			}
			idx := errResultIndex(x.Call.Signature())
			if idx < 0 {
				for k := range s.onSuccess {
					must[k] = true
					may[k] = true
				}
				continue
			}
			if e := resultOf(x, idx); e != nil {
				*pend = append(*pend, pendingAcq{val: e, isError: true, extra: s.onSuccess})
				for k := range s.onFailure {
					may[k] = true
				}
			} else {
				for k := range s.onSuccess {
					may[k] = true
				}
			}
		}
	}
}

func (la *lockAnalysis) deferTargets(d *ssa.Defer) []*ssa.Function {
	if mc, ok := d.Call.Value.(*ssa.MakeClosure); ok {
		return []*ssa.Function{mc.Fn.(*ssa.Function)}
	}
	if f := d.Call.StaticCallee(); f != nil && la.p.InP(f) && f.Blocks != nil {
		return []*ssa.Function{f}
	}
	if d.Call.IsInvoke() {
		return la.resolveInvoke(d.Call.Value, d.Call.Method.Name(), 0)
	}
	return nil
}

func (la *lockAnalysis) addOrder(held, acquired, witness string) {
	h := strings.TrimSuffix(held, "(R)")
	a := strings.TrimSuffix(acquired, "(R)")
	if la.order[h] == nil {
		la.order[h] = map[string]string{}
	}
	if _, ok := la.order[h][a]; !ok {
		la.order[h][a] = witness
	}
}

func (la *lockAnalysis) acquireEdge(fn *ssa.Function, at ssa.Instruction, may lockSet, class string, record bool) {
	if !record {
		return
	}
	for h := range may {
		la.addOrder(h, class, fmt.Sprintf("%s at %s", fnName(fn), la.p.InstrPos(at)))
	}
}

// deferredAt returns the locks released by defers that are registered on every path to ret.
func (la *lockAnalysis) deferredAt(fn *ssa.Function, ret *ssa.Return) lockSet {
	out := lockSet{}
	for d, ls := range la.defInstr[fn] {
		if dominates(d, ret) {
			for k := range ls {
				out[k] = true
			}
		}
	}
	return out
}

// analyse runs the intraprocedural dataflow for fn starting from entry set e.
func (la *lockAnalysis) analyse(fn *ssa.Function, entry lockSet, record bool) (exitsMust, exitsMay map[*ssa.Return]lockSet) {
	if la.deferred[fn] == nil {
		la.deferred[fn] = lockSet{}
	}
	inMust := map[*ssa.BasicBlock]lockSet{}
	inMay := map[*ssa.BasicBlock]lockSet{}
	type edgeKey struct {
		from *ssa.BasicBlock
		succ int
	}
	outMust := map[edgeKey]lockSet{}
	outMay := map[edgeKey]lockSet{}
	if len(fn.Blocks) == 0 {
		return
	}
	exitsMust = map[*ssa.Return]lockSet{}
	exitsMay = map[*ssa.Return]lockSet{}
	work := []*ssa.BasicBlock{fn.Blocks[0]}
	inMust[fn.Blocks[0]] = entry.clone()
	inMay[fn.Blocks[0]] = entry.clone()
	visited := map[*ssa.BasicBlock]bool{}
	iter := 0
	for len(work) > 0 && iter < 20000 {
		iter++
		b := work[0]
		work = work[1:]
		must := inMust[b].clone()
		may := inMay[b].clone()
		var pend []pendingAcq
		for _, in := range b.Instrs {
			la.step(fn, in, must, may, &pend, record && !visited[b])
			if r, ok := in.(*ssa.Return); ok {
				exitsMust[r] = must.clone()
				exitsMay[r] = may.clone()
			}
		}
		visited[b] = true
		for i, s := range b.Succs {
			m, y := must.clone(), may.clone()
			if ifi, ok := lastInstr(b).(*ssa.If); ok {
				f := edgeFact(ifi, i)
				for _, p := range pend {
					locks := lockSet{}
					if p.lock != "" {
						locks[p.lock] = true
					}
					for k := range p.extra {
						locks[k] = true
					}
					if p.isError {
						if f.Op != token.ILLEGAL && (vMust(p.val)(f.L) || vIs(p.val)(f.L)) && isNilConst(f.R) {
							if f.Op == token.EQL {
								for k := range locks {
									m[k], y[k] = true, true
								}
							}
						} else {
							// untested here: may be held
							for k := range locks {
								y[k] = true
							}
						}
					} else {
						if f.Op == token.ILLEGAL && f.L == p.val {
							if f.Truth == p.onTrue {
								for k := range locks {
									m[k], y[k] = true, true
								}
							}
						} else {
							for k := range locks {
								y[k] = true
							}
						}
					}
				}
			} else {
				for _, p := range pend {
					if p.lock != "" {
						y[p.lock] = true
					}
					for k := range p.extra {
						y[k] = true
					}
				}
			}
			ek := edgeKey{b, i}
			outMust[ek], outMay[ek] = m, y
			// recompute successor in-sets
			var nm, ny lockSet
			first := true
			for _, pb := range s.Preds {
				for j, ss := range pb.Succs {
					if ss != s {
						continue
					}
					om, ok := outMust[edgeKey{pb, j}]
					if !ok {
						continue
					}
					if first {
						nm, ny = om.clone(), outMay[edgeKey{pb, j}].clone()
						first = false
					} else {
						nm = intersect(nm, om)
						ny = union(ny, outMay[edgeKey{pb, j}])
					}
				}
			}
			if nm == nil {
				continue
			}
			old, seen := inMust[s]
			if !seen || !equalSet(old, nm) || !equalSet(inMay[s], ny) {
				inMust[s], inMay[s] = nm, ny
				work = append(work, s)
			}
		}
	}
	la.inMust[fn], la.inMay[fn] = inMust, inMay
	return
}

// summary computes (memoised) the lock summary of fn with an empty entry set.
func (la *lockAnalysis) summary(fn *ssa.Function) *lockSummary {
	if s, ok := la.sum[fn]; ok {
		return s
	}
	s := &lockSummary{onSuccess: lockSet{}, onFailure: lockSet{}, releases: lockSet{}, acquires: lockSet{}}
	la.sum[fn] = s
	if la.busy[fn] || fn.Blocks == nil {
		return s
	}
	la.busy[fn] = true
	defer func() { la.busy[fn] = false }()
	// releases of locks not held: run with a universe entry set and see what disappears
	universe := lockSet{}
	for _, c := range calls(fn) {
		if op, ok := classifyLockCall(c); ok {
			switch op.Kind {
			case "unlock", "release":
				universe[lk(op.Class, false)] = true
			case "runlock":
				universe[lk(op.Class, true)] = true
			case "lock", "rlock", "acquire":
				s.acquires[op.Class] = true
			}
		}
		if _, isGo := c.(*ssa.Go); isGo {
			continue
		}
		for _, g := range la.calleeFns(c) {
			if g == fn {
				continue
			}
			gs := la.summary(g)
			for k := range gs.acquires {
				s.acquires[k] = true
			}
			for k := range gs.releases {
				universe[k] = true
			}
		}
	}
	savedMode := la.pairing
	la.pairing = true
	exMust, exMay := la.analyse(fn, lockSet{}, false)
	la.pairing = savedMode
	first := true
	for r, m := range exMust {
		held := m.clone()
		mayHeld := exMay[r].clone()
		if canSucceed(r) {
			if first {
				s.onSuccess = held
				first = false
			} else {
				s.onSuccess = intersect(s.onSuccess, held)
			}
		} else {
			for k := range mayHeld {
				s.onFailure[k] = true
			}
		}
	}
	if len(universe) > 0 {
		la.pairing = true
		exMust2, _ := la.analyse(fn, universe, false)
		la.pairing = savedMode
		for k := range universe {
			releasedSomewhere := false
			for _, m := range exMust2 {
				if !m[k] {
					releasedSomewhere = true
				}
			}
			// only count as a release if fn does not itself acquire it first
			if releasedSomewhere && !s.acquires[strings.TrimSuffix(k, "(R)")] {
				s.releases[k] = true
			}
		}
		// restore the analysis state for the empty entry set
		la.analyse(fn, lockSet{}, false)
	}
	return s
}
