package main

// C05 — transient storage failures never leave gaps or false acknowledgements.

import (
	"fmt"
	"go/token"
	"go/types"
	"strings"

	"golang.org/x/tools/go/ssa"
)

func init() {
	register(&PropSpec{
		ID:  "C05",
		Run: runC05,
		Explanation: "Upload loop discipline in Replica.syncOnce (the replica position advances only on the nil edge of the upload of exactly pos+1 at level 0; every error exit zeroes the cached position), " +
			"fail-stop walk over the cones of Replica.Sync, Compactor.Compact and the resumable reader (pipe hand-offs and the sticky reader error count as propagation), " +
			"compaction hand-off (the pipe reader is closed with the write error on every path, the goroutine's compaction error reaches the pipe, the level cache is set only on write success), " +
			"staged-file removal on every error exit of file.WriteLTXFile, and the liveness skeleton (the monitors return only on context cancellation, so an error can never terminate the retry loop).",
		NotDecided:  "convergence time; ambiguous remote outcomes are safe only because re-upload is an idempotent rename-into-place (argued, not analysed)",
		Assumptions: []string{"ReplicaClient.WriteLTXFile returns nil only after the file is stored (per backend)"},
	})
}

func c05Config() *EFConfig {
	return &EFConfig{
		Rule:  "R3-errflow-upload-compact-cone",
		Roots: []string{"(*ls.Replica).Sync", "(*ls.Compactor).Compact", "(*ls.DB).Compact", "(*ls/internal.ResumableReader).Read", "(*ls/file.ReplicaClient).WriteLTXFile", "(*ls/file.ReplicaClient).OpenLTXFile", "(*ls/file.ReplicaClient).LTXFiles"},
		Pkgs:  corePkgs,
		Skip: map[string]string{"ls/internal.MkdirAll": "verbatim copy of os.MkdirAll",
			"(*ls.DB).EnforceL0RetentionByTime": "retention: its failure is logged by DB.Compact and never affects an acknowledgement (deletion safety is C07)"},
		Exceptions: append([]EFException{
			{Fn: "(*ls.DB).Compact", Callee: "(*ls.DB).EnforceL0RetentionByTime", Reason: "retention failure is logged and never affects the compaction result or any acknowledgement"},
			{Fn: "(*ls.Compactor).Compact", Callee: "slot:Compactor.LocalFileOpener", Tolerate: []string{"os.IsNotExist"}, Reason: "a missing local copy falls back to the remote file"},
			{Fn: "(*ls.Compactor).Compact", Callee: "(*ls.Compactor).VerifyLevelConsistency", Reason: "optional post-compaction verification: logged and counted, the written file is already durable"},
			{Fn: "(*ls/internal.ResumableReader).Read", Callee: "iface:io.ReadCloser.Read", Reason: "transparent resume: a failed read is retried from the same byte offset; the retry budget is enforced by retry() (rule R6-resumable-reader)"},
			{Fn: "(*ls/internal.ResumableReader).Read", Callee: "iface:ls/internal.LTXFileOpener.OpenLTXFile", Reason: "transparent resume: reopen is retried within the budget enforced by retry()"},
			{Fn: "(*ls/internal.ResumableReader).close", Callee: "iface:io.ReadCloser.Close", Reason: "closing a stream that is being discarded after a read failure (logged)"},
			{Fn: "(*ls.Compactor).MaxLTXFileInfo", Callee: "*", Reason: ""},
		}[:6], ackExceptions...),
	}
}

// ctxDoneEdges returns the branch edges of fn on which the context is known to be done.
func ctxDoneEdges(fn *ssa.Function) []Edge {
	var out []Edge
	isDone := func(v ssa.Value) bool {
		for _, o := range origins(v) {
			if call, ok := o.(*ssa.Call); ok && strings.HasSuffix(calleeName(call), ".Done") {
				return true
			}
			// db.Done channel field
			if u, ok := o.(*ssa.UnOp); ok {
				if fa, ok := u.X.(*ssa.FieldAddr); ok && strings.HasSuffix(fieldAddrName(fa), ".Done") {
					return true
				}
			}
		}
		return false
	}
	for _, b := range fn.Blocks {
		ifi, ok := lastInstr(b).(*ssa.If)
		if !ok {
			continue
		}
		for e := 0; e < 2; e++ {
			f := edgeFact(ifi, e)
			if f.Op == token.EQL {
				if ex, ok := f.L.(*ssa.Extract); ok && ex.Index == 0 {
					if sel, ok := ex.Tuple.(*ssa.Select); ok {
						if k, ok := constInt(f.R); ok && int(k) < len(sel.States) && isDone(sel.States[k].Chan) {
							out = append(out, Edge{b, e})
						}
					}
				}
			}
			if f.Op == token.NEQ && isNilConst(f.R) {
				if call, ok := f.L.(*ssa.Call); ok && strings.HasSuffix(calleeName(call), ".Err") && strings.Contains(calleeName(call), "context") {
					out = append(out, Edge{b, e})
				}
			}
		}
	}
	// select with a single remaining default after the done case: the
	// "select.next" chain is handled by the index comparisons above
	return out
}

func runC05(c *Ctx) {
	c05VFSWriter(c)
	c05BackendStreamReads(c)
	// R1/R2 upload loop
	if fn := c.fn("R1-position-after-upload", "(*ls.Replica).syncOnce"); fn != nil {
		const rule = "R1-position-after-upload"
		ups := callsTo(fn, nameIs("(*ls.Replica).uploadLTXFile"))
		c.floor(rule, len(ups), 1, "uploadLTXFile call in syncOnce")
		posPlus1 := func(v ssa.Value) bool {
			os := origins(v)
			if len(os) == 0 {
				return false
			}
			for _, o := range os {
				if !vPlusOne(vFieldLoad("Pos.TXID", vResult(nameIs("(*ls.Replica).Pos"), 0)))(o) {
					return false
				}
			}
			return true
		}
		for _, up := range ups {
			a := refArgs(up)
			c.check(len(a) == 5 && vConstInt(0)(a[2]) && a[3] == a[4] && posPlus1(a[3]), "R2-strictly-sequential-upload", fnName(fn)+": uploads level 0 file (r.Pos().TXID+1, same)", c.pos(up), "every origin of the uploaded id is r.Pos().TXID + 1", "the uploaded TXID is not exactly one past the replica position (a failed file could be skipped)")
			okF, outs := failStopOK(fn, up)
			c.check(okF, rule, fnName(fn)+": a failed upload ends the sync with an error", c.pos(up), "fail-stop", outs)
			n := 0
			for _, sp := range callsTo(fn, nameIs("(*ls.Replica).SetPos")) {
				f := compositeFields(refArgs(sp)[1])
				if f == nil {
					for _, o := range origins(refArgs(sp)[1]) {
						if ff := compositeFields(o); ff != nil {
							f = ff
						}
					}
				}
				if v, ok := f["TXID"]; ok && sameValue(v, a[3]) {
					n++
					c.requireGuard(rule, fn, Site{sp, "r.SetPos(Pos{TXID: txID})"}, cmpFact(vIs(resultOf(up, 0)), token.EQL, vNil(), "uploadLTXFile err == nil"))
					c.check(dominates(up, sp), rule, fnName(fn)+": position is advanced after the upload", c.pos(sp), "upload dominates SetPos", "the replica position is advanced before the file is stored")
				} else {
					c.requireGuard(rule, fn, Site{sp, "r.SetPos(calcPos result)"}, cmpFact(vResult(nameIs("(*ls.Replica).calcPos"), 1), token.EQL, vNil(), "calcPos err == nil"))
				}
			}
			c.floor(rule, n, 1, "SetPos of the uploaded TXID")
		}
		// uploadLTXFile: fail-stop for WriteLTXFile; uploads the local file of that name
		if up := c.fn(rule, "(*ls.Replica).uploadLTXFile"); up != nil {
			for _, w := range callsTo(up, nameHasSuffix(".WriteLTXFile")) {
				okF, outs := failStopOK(up, w)
				c.check(okF, rule, fnName(up)+": WriteLTXFile failure is returned", c.pos(w), "fail-stop", outs)
				a := refArgs(w)
				ok := vParam("level")(a[1]) && vParam("minTXID")(a[2]) && vParam("maxTXID")(a[3]) && vCallResult(nameIs("os.Open"))(a[4])
				c.check(ok, rule, fnName(up)+": uploads the opened local file under the same (level, min, max)", c.pos(w), "arguments forwarded", "the uploaded name and the uploaded content can differ")
			}
		}
	}

	errflowCone(c, c05Config())
	listingCompletenessAll(c, "R8-listing-complete", 8)

	// R4 compaction hand-off
	if fn := c.fn("R4-compaction-handoff", "(*ls.Compactor).Compact"); fn != nil {
		const rule = "R4-compaction-handoff"
		ws := callsTo(fn, nameHasSuffix(".WriteLTXFile"))
		c.floor(rule, len(ws), 1, "WriteLTXFile call in Compactor.Compact")
		for _, w := range ws {
			werr := resultOf(w, 1)
			// reader side closed with the write error on every path after the write
			var cw ssa.CallInstruction
			for _, call := range callsTo(fn, nameIs("(*io.PipeReader).CloseWithError")) {
				if vIs(werr)(refArgs(call)[1]) {
					cw = call
				}
			}
			c.check(cw != nil, rule, fnName(fn)+": pr.CloseWithError(write error)", c.pos(w), "present", "the pipe reader is not closed with the write error (the compaction goroutine could block forever or its error be lost)")
			if cw != nil {
				for _, ret := range returns(fn) {
					if reachable(fn, w.Block(), nil)[ret.Block()] && w.Block() != ret.Block() {
						c.check(dominates(cw, ret), rule, fnName(fn)+": every return after the write passes pr.CloseWithError(err)", c.pos(ret), "dominated", "a return after WriteLTXFile bypasses closing the pipe reader")
					}
				}
			}
			for _, cs := range callsTo(fn, nameIs("slot:Compactor.CacheSetter")) {
				c.requireGuard(rule, fn, Site{cs, "CacheSetter(dstLevel, info)"}, cmpFact(vIs(werr), token.EQL, vNil(), "WriteLTXFile err == nil"))
				c.check(vIs(resultOf(w, 0))(refArgs(cs)[1]) && vParam("dstLevel")(cs.Common().Args[0]), rule, fnName(fn)+": cache records the file just written at dstLevel", c.pos(cs), "provenance matches", "the level cache is updated with something other than the written file")
			}
			// the written range is the min/max over the iterated inputs, read side is the pipe
			a := refArgs(w)
			c.check(vParam("dstLevel")(a[1]) && vCallResult(nameIs("io.Pipe"))(a[len(a)-1]), rule, fnName(fn)+": writes to dstLevel from the compaction pipe", c.pos(w), "provenance matches", "unexpected write arguments")
		}
		// goroutine: compaction error reaches the pipe (checked by the cone walk with wantSig); writer side is the same pipe
		for _, f := range withClosures(fn) {
			if f == fn {
				continue
			}
			for _, nc := range callsTo(f, nameIs("ltx.NewCompactor")) {
				c.check(vCallResult(nameIs("io.Pipe"))(nc.Common().Args[0]), rule, fnName(f)+": ltx compactor writes into the pipe", c.pos(nc), "pipe writer", "compactor output is not the pipe")
			}
			// a failed merge must poison the pipe: the reader side (WriteLTXFile) then
			// fails instead of storing a truncated stream as a complete file
			for _, k := range callsTo(f, nameIs("(*ltx.Compactor).Compact", "ltx.NewCompactor")) {
				out, over := failStop(f, k, false, true)
				c.check(!over && len(out) == 0, rule, fnName(f)+": the error of "+calleeName(k)+" reaches the pipe writer", c.pos(k), "CloseWithError(non-nil) on every path after a failure", "a failed compaction closes the pipe cleanly: the truncated output would be stored as a complete file and acknowledged")
			}
		}
	}

	// R5 staged file removal (by reference to C03-R6) restricted to file.WriteLTXFile
	if fn := c.fn("R5-staged-file-removed", "(*ls/file.ReplicaClient).WriteLTXFile"); fn != nil {
		const rule = "R5-staged-file-removed"
		found := false
		for _, b := range fn.Blocks {
			for _, in := range b.Instrs {
				d, ok := in.(*ssa.Defer)
				if !ok {
					continue
				}
				mc, ok := d.Call.Value.(*ssa.MakeClosure)
				if !ok {
					continue
				}
				cl := mc.Fn.(*ssa.Function)
				for _, rm := range callsTo(cl, nameIs("os.Remove")) {
					g, n := guardedBy(rm, cmpFact(func(v ssa.Value) bool {
						u, ok := v.(*ssa.UnOp)
						if !ok {
							return false
						}
						_, isFV := u.X.(*ssa.FreeVar)
						return isFV && isErrorType(v.Type())
					}, token.NEQ, vNil(), ""))
					if n > 0 && g {
						found = true
						// registered right after the create: dominates every later return
						for _, cr := range callsTo(fn, nameIs("ls/internal.CreateFile")) {
							c.check(dominates(cr, d), rule, fnName(fn)+": cleanup registered after the staged file is created", c.pos(d), "ordered", "cleanup registered before the file exists")
						}
					}
				}
			}
		}
		c.check(found, rule, fnName(fn)+": deferred closure removes the staged file when the named error result is non-nil", c.P.Pos(fn.Pos()), "found", "a failed upload leaves its .tmp file behind")
	}

	// R6 liveness skeleton
	for _, name := range []string{"(*ls.Replica).monitor", "(*ls.DB).monitor"} {
		const rule = "R6-monitor-never-exits-on-error"
		fn := c.fn(rule, name)
		if fn == nil {
			continue
		}
		cut := ctxDoneEdges(fn)
		c.floor(rule, len(cut), 1, "context-done branches in "+name)
		r := reachable(fn, nil, cut)
		for _, ret := range returns(fn) {
			c.check(!r[ret.Block()], rule, name+": return is reachable only through a context-done edge", c.pos(ret), "unreachable after removing the context-done edges", "the monitor loop can terminate without the context being cancelled (replication would stop silently after an error)", witnessPath(c.P, fn, ret.Block(), cut)...)
		}
		// the sync call is inside the loop
		syncName := "(*ls.Replica).sync"
		if strings.Contains(name, "DB") {
			syncName = "(*ls.DB).Sync"
		}
		for _, call := range callsTo(fn, nameIs(syncName)) {
			c.check(innermostLoopOf(naturalLoops(fn), call.Block()) != nil, rule, name+": "+syncName+" is retried inside the monitor loop", c.pos(call), "in loop", "sync is not inside the retry loop")
		}
	}

	// R6b resumable reader
	c05Resumable(c)
	// R7 re-initialisation after a transient init failure
	c05Init(c)
}

// failStopOK wraps failStop for single checks.
func failStopOK(fn *ssa.Function, call ssa.CallInstruction) (bool, string) {
	out, over := failStop(fn, call, false, false)
	if over {
		return false, "state budget exceeded"
	}
	if len(out) == 0 {
		return true, ""
	}
	return false, "after a failure a " + out[0].Kind + " return is reachable"
}

func c05Resumable(c *Ctx) {
	const rule = "R6-resumable-reader"
	rd := c.fn(rule, "(*ls/internal.ResumableReader).Read")
	rt := c.fn(rule, "(*ls/internal.ResumableReader).retry")
	if rd == nil || rt == nil {
		return
	}
	// offset advances by exactly the bytes returned by every underlying read
	reads := callsTo(rd, nameIs("iface:io.ReadCloser.Read"))
	c.floor(rule, len(reads), 1, "underlying Read call")
	for _, r := range reads {
		n := resultOf(r, 0)
		ok := false
		for _, st := range storesToField(rd, "ResumableReader.offset") {
			if vBinOp(token.ADD, vFieldLoad("ResumableReader.offset", nil), vIs(n), true)(st.Val) && st.Block() == r.Block() {
				ok = true
			}
		}
		c.check(ok, rule, fnName(rd)+": r.offset += n immediately after every underlying read", c.pos(r), "same block", "the resume offset does not track the bytes delivered (a resumed stream would repeat or skip bytes)")
		c.check(vParam("p")(r.Common().Args[0]), rule, fnName(rd)+": reads into the caller's buffer", c.pos(r), "p", "unexpected buffer")
	}
	// reopen at r.offset
	for _, o := range callsTo(rd, nameHasSuffix(".OpenLTXFile")) {
		a := refArgs(o)
		c.check(vFieldLoad("ResumableReader.offset", nil)(a[4]) && vConstInt(0)(a[5]) && vFieldLoad("ResumableReader.level", nil)(a[1]) && vFieldLoad("ResumableReader.minTXID", nil)(a[2]) && vFieldLoad("ResumableReader.maxTXID", nil)(a[3]), rule, fnName(rd)+": reopen (level,min,max) at r.offset with no size limit", c.pos(o), "provenance matches", "the stream is reopened at the wrong position or for the wrong file")
	}
	// sticky error: checked first, returned forever
	errFld := vFieldLoad("ResumableReader.err", nil)
	for _, r := range reads {
		c.requireGuard(rule, rd, Site{r, "underlying Read"}, cmpFact(errFld, token.EQL, vNil(), "r.err == nil"))
	}
	// premature EOF is never returned as EOF: an io.EOF return requires !(size > 0 && offset < size)
	for _, ret := range returns(rd) {
		if vGlobal("io.EOF")(errOperand(ret)) {
			c.requireAlts(rule, rd, Site{ret, "return io.EOF"}, []FP{
				cmpFact(vFieldLoad("ResumableReader.size", nil), token.LEQ, vConstInt(0), "r.size <= 0 (unknown)"),
				cmpFact(vFieldLoad("ResumableReader.offset", nil), token.GEQ, vFieldLoad("ResumableReader.size", nil), "r.offset >= r.size"),
			})
		}
	}
	// retry budget: beyond the budget r.err is set and returned
	n := 0
	for _, st := range storesToField(rt, "ResumableReader.err") {
		n++
		_ = st
	}
	c.floor(rule, n, 1, "sticky error stores in retry()")
	for _, ret := range successReturns(rt) {
		c.requireGuard(rule, rt, Site{ret, "retry() == nil"}, cmpFact(vFieldLoad("ResumableReader.retryN", nil), token.LEQ, vAny(), "r.retryN <= resumableReaderMaxRetries"))
	}
	incs := storesToField(rt, "ResumableReader.retryN")
	c.floor(rule, len(incs), 1, "retry counter increment")
	for _, st := range incs {
		c.check(vPlusOne(vFieldLoad("ResumableReader.retryN", nil))(st.Val), rule, fnName(rt)+": r.retryN++", c.pos(st), "increment", "retry counter not incremented")
	}
	// every failure return of retry() stores the error first
	for _, ret := range returns(rt) {
		if canSucceed(ret) {
			continue
		}
		ok := false
		for _, st := range storesToField(rt, "ResumableReader.err") {
			if dominates(st, ret) {
				ok = true
			}
		}
		c.check(ok, rule, fnName(rt)+": a failing retry() records the sticky error before returning", c.pos(ret), "store dominates the return", "a later Read could silently resume after the budget was exhausted")
	}
	// in Read, a failed retry() is returned
	for _, call := range callsTo(rd, nameIs("(*ls/internal.ResumableReader).retry")) {
		okF, why := failStopOK(rd, call)
		c.check(okF, rule, fnName(rd)+": a failed retry() ends Read with that error", c.pos(call), "fail-stop", why)
	}
}

// c05VFSWriter: the VFS write path is the other level-0 producer.  Its TXID counters
// (expectedTXID, pendingTXID, pos) advance only on the nil edge of the upload of the
// transaction they count: a counter advanced before a failed upload makes the next sync
// store TXID n+1 while n was never stored (a permanent gap in level 0).
func c05VFSWriter(c *Ctx) {
	const rule = "R9-vfs-counters-after-upload"
	fn := c.fnOpt("(*ls.VFSFile).syncToRemoteWithLock")
	if fn == nil {
		return // build without the vfs tag
	}
	ups := callsToDeep(fn, nameHasSuffix(".WriteLTXFile"))
	c.floor(rule, len(ups), 1, "WriteLTXFile in the VFS sync")
	n := 0
	for _, up := range ups {
		if up.Parent() != fn {
			continue
		}
		nilE := cmpFact(vIs(resultOf(up, 1)), token.EQL, vNil(), "WriteLTXFile err == nil")
		for _, f := range []string{"VFSFile.expectedTXID", "VFSFile.pendingTXID", "VFSFile.pos"} {
			for _, st := range storesToFieldDeep(fn, f) {
				n++
				site := ssa.Instruction(st)
				if st.Parent() != fn {
					site = liftTo(fn, st)
					if site == nil {
						c.undecided(rule, fnName(fn)+": "+f+" advances only after the upload succeeded", c.pos(st), "store in a helper with several call sites")
						continue
					}
				}
				c.requireGuard(rule, fn, Site{site, f + " = …"}, nilE)
			}
		}
		// the uploaded id is the pending one
		lv, mn, mx := namedArg(up, "level"), namedArg(up, "minTXID"), namedArg(up, "maxTXID")
		if lv != nil && mn != nil && mx != nil {
			c.check(vFieldLoad("VFSFile.pendingTXID", nil)(mn) && vFieldLoad("VFSFile.pendingTXID", nil)(mx) && vConstInt(0)(lv), rule, fnName(fn)+": uploads level 0 file (pendingTXID, pendingTXID)", c.pos(up), "provenance matches", "the uploaded TXID is not the pending one")
		}
	}
	c.floor(rule, n, 3, "counter stores in the VFS sync")
}

// c05BackendStreamReads: every replica client consumes the LTX stream it is asked to
// store through a reader that can end early (a compaction pipe closed with the source's
// error, a resumable download out of retries).  Wherever a backend reads that stream, a
// read error other than a clean io.EOF is fail-stop: treating a premature end as "whole
// object buffered" publishes a truncated file and acknowledges it.
func c05BackendStreamReads(c *Ctx) {
	const rule = "R10-backend-stream-read-errors"
	isRead := nameIs("io.CopyN", "io.Copy", "io.CopyBuffer", "io.ReadFull", "io.ReadAll", "io.ReadAtLeast", "(*bytes.Buffer).ReadFrom")
	var fromReaderParamD func(v ssa.Value, d int) bool
	fromReaderParamD = func(v ssa.Value, d int) bool {
		if v == nil || d > 3 {
			return false
		}
		for _, o := range origins(v) {
			switch x := o.(type) {
			case *ssa.Parameter:
				if it, isI := x.Type().Underlying().(*types.Interface); isI && it.NumMethods() >= 1 && strings.HasSuffix(x.Type().String(), "io.Reader") {
					return true
				}
			case *ssa.Call:
				// a wrapper around the stream (byte counter, tee, buffered or multi reader)
				for _, a := range x.Call.Args {
					if fromReaderParamD(a, d+1) {
						return true
					}
				}
			case *ssa.MakeInterface:
				if fromReaderParamD(x.X, d+1) {
					return true
				}
			case *ssa.ChangeInterface:
				if fromReaderParamD(x.X, d+1) {
					return true
				}
			case *ssa.Slice:
				// variadic arguments (io.MultiReader(&buf, rd)): the backing array's elements
				if al, ok := x.X.(*ssa.Alloc); ok && al.Referrers() != nil {
					for _, r := range *al.Referrers() {
						ia, ok := r.(*ssa.IndexAddr)
						if !ok || ia.Referrers() == nil {
							continue
						}
						for _, rr := range *ia.Referrers() {
							if st, ok := rr.(*ssa.Store); ok && fromReaderParamD(st.Val, d+1) {
								return true
							}
						}
					}
				}
			}
		}
		return false
	}
	fromReaderParam := func(v ssa.Value) bool { return fromReaderParamD(v, 0) }
	n := 0
	for _, fn := range c.P.ProdFuncs() {
		tp := typesPkgOf(fn)
		if tp == nil {
			continue
		}
		rel, ok := relPkg(tp)
		if !ok || rel == "" || rel == "internal" || strings.HasPrefix(rel, "cmd") || !prodPkgs[rel] {
			continue // the core packages are covered by the error-flow cones
		}
		for _, ci := range callsTo(fn, isRead) {
			call, ok := ci.(*ssa.Call)
			if !ok || errResultIndex(call.Call.Signature()) < 0 {
				continue
			}
			src := false
			for _, a := range call.Call.Args {
				if fromReaderParam(a) {
					src = true
				}
			}
			if !src {
				continue
			}
			n++
			out, over := failStop(fn, call, false, false, "errors.Is:io.EOF")
			construct := fnName(fn) + ": " + calleeName(call) + " on the LTX stream is fail-stop (clean EOF excepted)"
			switch {
			case over:
				c.undecided(rule, construct, c.pos(call), "state budget exceeded")
			case len(out) == 0:
				c.ok(rule, construct, c.pos(call), "no success return reachable after a read error other than io.EOF")
			default:
				c.fail(rule, construct, c.pos(call), fmt.Sprintf("after a read error that is not a clean EOF a %s return at %s is reachable: a stream that ended early is stored and acknowledged as complete", out[0].Kind, c.pos(out[0].Ret)))
			}
		}
	}
	c.floor(rule, n, 3, "reads of the uploaded LTX stream in the replica clients")
}
