package main

// C09 — only frames SQLite itself treats as committed are ever replicated.
//
// Decided: the validation skeleton of the WAL reader.  Every success return of
// readHeader / readFrame / NewWALReaderWithOffset is reachable only through the
// branch edges on which the corresponding validity fact holds (full reads,
// magic, header checksum, version, salts, cumulative checksum), the page map
// is updated only from commit frames, nothing is read after a bad frame, pages
// above the commit size are trimmed and the byte budget is applied at commit
// frames only.

import (
	"fmt"
	"go/token"

	"golang.org/x/tools/go/ssa"
)

func init() {
	register(&PropSpec{
		ID:  "C09",
		Run: runC09,
		Explanation: "Edge-cut reachability (E3) on the SSA control-flow graphs of (*WALReader).readHeader, readFrame, pageMap, " +
			"NewWALReaderWithOffset, ReadFrame and (*DB).sync: for each validity fact F (full header/page read, magic in {0x377f0682,0x377f0683}, " +
			"both header checksum words, version, salt1, salt2, both cumulative checksum words on the verifying path, commit field != 0, key > commit) " +
			"the success return / map update / frame counter increment becomes unreachable from the function entry when every branch edge on which F holds is deleted. " +
			"Facts are derived from comparison operator and branch polarity, operands are identified by provenance (n-th result of a resolved callee, field, " +
			"parameter, big-endian word at a constant header offset), not by text. " +
			"Shared with C04: the cursor handed to the reader is the one verify established; on a restarted WAL (salts changed, last synced frame intact) every return carries offset = WALHeaderSize and the current header salts, so the copy never resumes inside the stale previous generation.",
		NotDecided: "arithmetic of WALChecksum, equivalence with SQLite's recovery on arbitrary bytes, byte equality of copied pages",
		Assumptions: []string{
			"SQLite WAL format: header 32 bytes (magic@0, version@4, page size@8, salts@16/20, checksum@24/28), frame header 24 bytes (pgno@0, commit@4, salts@8/12, checksum@16/20)",
		},
	})
}

func runC09(c *Ctx) {
	c09ReadHeader(c)
	c09ReadFrame(c)
	c09PageMap(c, "C09")
	c09WithOffset(c)
	c09SyncReader(c)
	// "no page beyond the committed database size": header Commit provenance
	ltxHeaderRules(c)
	// ... also for the snapshot encoder, the other consumer of pageMap (shared with C02)
	c02Snapshot(c)
	// the cursor (offset, salts) the reader resumes at is the one verify established:
	// on a restarted WAL it is the header with the current salts (shared with C04)
	c04DefaultDeny(c)
}

func isReadAt(s string) bool { return s == "iface:io.ReaderAt.ReadAt" || s == "(*os.File).ReadAt" }

func c09ReadHeader(c *Ctx) {
	const rule = "R1-header-validation"
	fn := c.fn(rule, "(*ls.WALReader).readHeader")
	if fn == nil {
		return
	}
	succ := successReturns(fn)
	c.floor(rule, len(succ), 1, "success returns of readHeader")
	reads := callsTo(fn, isReadAt)
	c.floor(rule, len(reads), 1, "ReadAt calls in readHeader")
	var hdrBuf ssa.Value
	if len(reads) > 0 {
		hdrBuf = argOf(reads[0], 0)
	}
	buf := sliceBase(vIs(hdrBuf))
	chk := vResult(nameIs("ls.WALChecksum"), 0)
	chk1 := vResult(nameIs("ls.WALChecksum"), 1)
	magic := vU32At(buf, 0)
	for _, r := range succ {
		s := Site{r, "success return"}
		for _, rd := range reads {
			n := resultOf(rd, 0)
			e := resultOf(rd, 1)
			c.requireGuard(rule, fn, s, cmpFact(vIs(n), token.GEQ, vLenOf(vIs(argOf(rd, 0))), "ReadAt n >= len(hdr)"))
			c.requireGuard(rule, fn, s, cmpFact(vIs(e), token.EQL, vNil(), "ReadAt err == nil"))
		}
		c.requireGuard(rule, fn, s,
			cmpFact(magic, token.EQL, vConstInt(0x377f0682), "magic == 0x377f0682"),
			cmpFact(magic, token.EQL, vConstInt(0x377f0683), "magic == 0x377f0683"))
		c.requireGuard(rule, fn, s, cmpFact(chk, token.EQL, vU32At(buf, 24), "WALChecksum(hdr[:24]).0 == hdr[24:]"))
		c.requireGuard(rule, fn, s, cmpFact(chk1, token.EQL, vU32At(buf, 28), "WALChecksum(hdr[:24]).1 == hdr[28:]"))
		c.requireGuard(rule, fn, s, cmpFact(vU32At(buf, 4), token.EQL, vConstInt(3007000), "version == 3007000"))
	}
	// the header checksum is computed over hdr[:24] with zero seeds and the byte order selected by the magic
	for _, w := range callsTo(fn, nameIs("ls.WALChecksum")) {
		a := w.Common().Args
		good := len(a) == 4 && vFieldLoad("WALReader.bo", nil)(a[0]) && vConstInt(0)(a[1]) && vConstInt(0)(a[2])
		if good {
			sl, ok := a[3].(*ssa.Slice)
			hi, okh := int64(0), false
			if ok && sl.High != nil {
				hi, okh = constInt(sl.High)
			}
			good = ok && buf(sl.X) && sl.Low == nil && okh && hi == 24
		}
		c.check(good, rule, fnName(fn)+": header checksum = WALChecksum(r.bo, 0, 0, hdr[:24])", c.pos(w), "arguments match", "header checksum is not computed over hdr[:24] with zero seeds and the reader's byte order")
	}
	// field assignments from the header words
	for _, fa := range []struct {
		field string
		off   int64
	}{{"WALReader.pageSize", 8}, {"WALReader.salt1", 16}, {"WALReader.salt2", 20}} {
		sts := storesToField(fn, fa.field)
		c.floor(rule, len(sts), 1, "stores to "+fa.field+" in readHeader")
		for _, st := range sts {
			c.check(vU32At(buf, fa.off)(st.Val), rule, fmt.Sprintf("%s: %s = BigEndian.Uint32(hdr[%d:])", fnName(fn), fa.field, fa.off), c.pos(st),
				"value provenance matches", "field is not loaded from the documented header offset")
		}
	}
	// byte order follows the magic
	bos := storesToField(fn, "WALReader.bo")
	c.floor(rule, len(bos), 2, "stores to WALReader.bo")
	for _, st := range bos {
		var want int64
		var name string
		switch {
		case vGlobal("encoding/binary.LittleEndian")(st.Val):
			want, name = 0x377f0682, "LittleEndian"
		case vGlobal("encoding/binary.BigEndian")(st.Val):
			want, name = 0x377f0683, "BigEndian"
		default:
			c.fail(rule, fnName(fn)+": r.bo assigned from binary.{Little,Big}Endian", c.pos(st), "unrecognised byte order value")
			continue
		}
		c.requireGuard(rule, fn, Site{st, "r.bo = binary." + name}, cmpFact(magic, token.EQL, vConstInt(want), fmt.Sprintf("magic == %#x", want)))
	}
}

func c09ReadFrame(c *Ctx) {
	const rule = "R2-frame-validation"
	// split form: the verifyChecksum flag replaced by two functions over a shared core;
	// the verifying path is then the exported ReadFrame with the core virtually inlined
	split := c.P.Func("(*ls.WALReader).readFrame") == nil && c.P.Func("(*ls.WALReader).ReadFrame") != nil
	anchor := "(*ls.WALReader).readFrame"
	if split {
		anchor = "(*ls.WALReader).ReadFrame"
	}
	fn := c.fn(rule, anchor)
	if fn == nil {
		return
	}
	succ := successReturns(fn)
	c.floor(rule, len(succ), 1, "success returns of readFrame")
	reads := callsToDeep(fn, isReadAt)
	c.floor(rule, len(reads), 2, "ReadAt calls in readFrame")
	if len(reads) < 2 {
		return
	}
	// the frame header buffer is the 24-byte one, the page buffer is the data parameter
	var hdrRead, dataRead ssa.CallInstruction
	for _, rd := range reads {
		if vParam("data")(argOf(rd, 0)) {
			dataRead = rd
		} else {
			hdrRead = rd
		}
	}
	if hdrRead == nil || dataRead == nil {
		c.fail(rule, fnName(fn)+": header read and page read present", c.P.Pos(fn.Pos()), "could not identify the frame-header read and the page read (ReadAt into the data parameter)")
		return
	}
	hdrBuf := argOf(hdrRead, 0)
	hdr := sliceBase(func(v ssa.Value) bool {
		if v == hdrBuf {
			return true
		}
		if !split {
			return false
		}
		// the buffer is the core's parameter there and a local of its callers here
		for _, a := range origins(hdrBuf) {
			for _, b := range origins(v) {
				if a == b {
					if _, isParam := a.(*ssa.Parameter); !isParam {
						return true
					}
				}
			}
		}
		return false
	})
	sites := []Site{}
	for _, r := range succ {
		sites = append(sites, Site{r, "success return"})
	}
	incs := storesToField(fn, "WALReader.frameN")
	c.floor(rule, len(incs), 1, "stores to WALReader.frameN in readFrame")
	for _, st := range incs {
		sites = append(sites, Site{st, "r.frameN++"})
	}
	verify := vParam("verifyChecksum")
	for _, s := range sites {
		for _, rd := range []ssa.CallInstruction{hdrRead, dataRead} {
			what := "frame header"
			if rd == dataRead {
				what = "page"
			}
			c.requireGuard(rule, fn, s, cmpFact(vIs(resultOf(rd, 0)), token.EQL, vLenOf(vIs(argOf(rd, 0))), what+" ReadAt n == len(buf)"))
			c.requireGuard(rule, fn, s, cmpFact(vIs(resultOf(rd, 1)), token.EQL, vNil(), what+" ReadAt err == nil"))
		}
		c.requireGuard(rule, fn, s, cmpFact(vFieldLoad("WALReader.salt1", nil), token.EQL, vU32At(hdr, 8), "r.salt1 == frame salt1 (hdr[8:])"))
		c.requireGuard(rule, fn, s, cmpFact(vFieldLoad("WALReader.salt2", nil), token.EQL, vU32At(hdr, 12), "r.salt2 == frame salt2 (hdr[12:])"))
		c.requireGuard(rule, fn, s,
			truthFact(verify, false, "!verifyChecksum"),
			cmpFact(vFieldLoad("WALReader.chksum1", nil), token.EQL, vU32At(hdr, 16), "r.chksum1 == hdr[16:]"))
		c.requireGuard(rule, fn, s,
			truthFact(verify, false, "!verifyChecksum"),
			cmpFact(vFieldLoad("WALReader.chksum2", nil), token.EQL, vU32At(hdr, 20), "r.chksum2 == hdr[20:]"))
	}
	// running checksum: seeded from the reader, over hdr[:8] then the page, stored back before the comparison
	vws := callSitesV(fn, nameIs("ls.WALChecksum"))
	c.floor(rule, len(vws), 2, "WALChecksum calls in readFrame")
	sawHdr, sawData := false, false
	var ws []ssa.CallInstruction
	for _, vw := range vws {
		w := vw.Call()
		ws = append(ws, w)
		a := w.Common().Args
		if len(a) != 4 {
			continue
		}
		seeded := vFieldLoad("WALReader.bo", nil)(a[0]) && vFieldLoad("WALReader.chksum1", nil)(a[1]) && vFieldLoad("WALReader.chksum2", nil)(a[2])
		over := ""
		if sl, ok := a[3].(*ssa.Slice); ok && hdr(sl.X) && sl.Low == nil && sl.High != nil {
			if hi, ok := constInt(sl.High); ok && hi == 8 {
				over = "hdr[:8]"
				sawHdr = true
			}
		} else if vParam("data")(a[3]) {
			over = "data"
			sawData = true
		}
		c.check(seeded && over != "", rule, fnName(fn)+": running checksum step WALChecksum(r.bo, r.chksum1, r.chksum2, "+over+")", c.pos(w),
			"seeded from reader state", "running checksum is not seeded from r.bo/r.chksum1/r.chksum2 or covers unexpected bytes")
		// results stored back to the fields
		for i, f := range []string{"WALReader.chksum1", "WALReader.chksum2"} {
			res := resultOf(w, i)
			stored := false
			for _, st := range storesToFieldDeep(fn, f) {
				if res != nil && vIs(res)(st.Val) {
					stored = true
				}
			}
			c.check(stored, rule, fmt.Sprintf("%s: WALChecksum(%s) result %d stored to %s", fnName(fn), over, i, f), c.pos(w), "stored", "checksum word is not written back to the reader")
		}
		// only on the verifying path
		vw.Desc = "running checksum update over " + over
		if !split {
			c.requireGuardV(rule, fn, vw, truthFact(verify, true, "verifyChecksum"))
		}
	}
	c.check(sawHdr && sawData, rule, fnName(fn)+": checksum covers frame header[:8] and page data", c.P.Pos(fn.Pos()), "both steps present", "the cumulative checksum does not cover both the frame header prefix and the page")
	// comparison happens after the update: every checksum compare edge is dominated by both updates
	cmpPat := cmpFact(vFieldLoad("WALReader.chksum1", nil), token.EQL, vU32At(hdr, 16), "")
	nCmp := 0
	for _, g := range deepFuncs(fn) {
		for _, b := range g.Blocks {
			for _, in := range b.Instrs {
				bo, isB := in.(*ssa.BinOp)
				if !isB || (bo.Op != token.EQL && bo.Op != token.NEQ) || !cmpPat.holds(Fact{L: bo.X, R: bo.Y, Op: token.EQL}) {
					continue
				}
				nCmp++
				for _, w := range ws {
					c.check(dominates(w, bo), rule, fnName(fn)+": checksum comparison follows the update", c.pos(bo), "dominated by update", "checksum compared before it is updated")
				}
			}
		}
	}
	c.floor(rule, nCmp, 1, "comparisons of the running checksum with the frame's stored checksum")
	// returned page number / commit come from the frame header
	for _, r := range succ {
		if len(r.Results) >= 2 {
			c.check(vU32At(hdr, 0)(r.Results[0]), rule, fnName(fn)+": returned pgno = BigEndian.Uint32(hdr[0:])", c.pos(r), "provenance matches", "page number not taken from frame header offset 0")
			c.check(vU32At(hdr, 4)(r.Results[1]), rule, fnName(fn)+": returned commit = BigEndian.Uint32(hdr[4:])", c.pos(r), "provenance matches", "commit field not taken from frame header offset 4")
		}
	}
	// page read at frame offset + frame header size
	hoff := argOf(hdrRead, 1)
	doff := argOf(dataRead, 1)
	c.check(vBinOp(token.ADD, vIs(hoff), vConstInt(24), true)(doff), rule, fnName(fn)+": page read offset = frame offset + WALFrameHeaderSize", c.pos(dataRead), "provenance matches", "page is not read from frame offset + 24")

	// split form: a function that adopts the frame's stored checksum instead of verifying it
	// (r.chksum1 = hdr[16:]) is reachable from NewWALReaderWithOffset only
	if split {
		for _, g := range c.P.ProdFuncs() {
			if g.Parent() != nil || g == fn {
				continue
			}
			adopts := false
			for _, st := range storesToField(g, "WALReader.chksum1") {
				if vU32At(nil, 16)(st.Val) {
					adopts = true
				}
			}
			if !adopts {
				continue
			}
			for _, cs := range callSitesOf(g) {
				owner := cs.Parent()
				for owner.Parent() != nil {
					owner = owner.Parent()
				}
				c.check(fnName(owner) == "ls.NewWALReaderWithOffset", rule, "caller "+fnName(owner)+" of the non-verifying frame read "+fnName(g), c.pos(cs), "NewWALReaderWithOffset (seeds checksum from previous frame)", "a caller other than NewWALReaderWithOffset reads frames without checksum verification")
			}
		}
	}
	// exported ReadFrame verifies checksums; only NewWALReaderWithOffset may skip verification
	for _, f := range c.P.ProdFuncs() {
		for _, call := range callsTo(f, nameIs("(*ls.WALReader).readFrame")) {
			a := namedArg(call, "verifyChecksum")
			isTrue := a != nil && vConstBool(true)(a)
			owner := fnName(f)
			if owner == "ls.NewWALReaderWithOffset" {
				c.ok(rule, "caller "+owner+" may skip checksum verification (seeds checksum from previous frame)", c.pos(call), "named exception")
				continue
			}
			c.check(isTrue, rule, "caller "+owner+" passes verifyChecksum=true", c.pos(call), "constant true", "a caller other than NewWALReaderWithOffset disables checksum verification")
		}
	}
}

// c09PageMap checks commit gating in (*WALReader).pageMap; shared with C02.
func c09PageMap(c *Ctx, prop string) {
	const rule = "R3-commit-gating"
	fn := c.fn(rule, "(*ls.WALReader).pageMap")
	if fn == nil {
		return
	}
	// pageMap and the phases it may have been split into
	parts := deepFuncs(fn)
	rfs := callsToDeep(fn, nameIs("(*ls.WALReader).ReadFrame", "(*ls.WALReader).readFrame"))
	c.floor(rule, len(rfs), 1, "ReadFrame calls in pageMap")
	if len(rfs) == 0 {
		return
	}
	isRF := nameIs("(*ls.WALReader).ReadFrame", "(*ls.WALReader).readFrame")
	commitFld := vResult(isRF, 1)
	rfErr := vResult(isRF, 2)
	committed := cmpFact(commitFld, token.NEQ, vConstInt(0), "frame commit field != 0")

	// the returned map(s)
	retMaps := map[ssa.Value]bool{}
	for _, r := range returns(fn) {
		if len(r.Results) == 0 {
			continue
		}
		for _, o := range origins(r.Results[0]) {
			if _, ok := o.(*ssa.MakeMap); ok {
				retMaps[o] = true
			}
		}
	}
	c.floor(rule, len(retMaps), 1, "returned page map")
	isRet := func(v ssa.Value) bool {
		for _, o := range origins(v) {
			if retMaps[o] {
				return true
			}
		}
		return false
	}
	// (i) every update of the returned map is commit-gated
	n := 0
	// a write to the returned map: m[k] = v, or the library forms maps.Copy(m, …) / maps.Insert(m, …)
	isMapWrite := func(in ssa.Instruction) bool {
		if mu, ok := in.(*ssa.MapUpdate); ok {
			return isRet(mu.Map)
		}
		if call, ok := in.(ssa.CallInstruction); ok {
			switch calleeName(call) {
			case "maps.Copy", "maps.Insert":
				a := call.Common().Args
				return len(a) >= 1 && isRet(a[0])
			}
		}
		return false
	}
	for _, part := range parts {
		for _, b := range part.Blocks {
			for _, in := range b.Instrs {
				if isMapWrite(in) {
					n++
					c.requireGuard(rule, fn, Site{in, "update of the returned page map"}, committed)
				}
			}
		}
	}
	c.floor(rule, n, 1, "updates of the returned page map")
	// the staging map must be reset when a transaction is transferred: a MakeMap inside the commit branch
	// (ii) nothing is read after a bad frame
	for _, rf := range rfs {
		blk := rf.Block()
		scan := rf.Parent() // the function holding the read loop
		var bad []Edge
		bad = append(bad, factEdges(scan, cmpFact(rfErr, token.NEQ, vNil(), ""))...)
		bad = append(bad, factEdges(scan, truthFact(func(v ssa.Value) bool {
			call, ok := v.(*ssa.Call)
			return ok && calleeName(call) == "errors.Is" && len(call.Call.Args) == 2 && rfErr(call.Call.Args[0])
		}, true, ""))...)
		c.floor(rule, len(bad), 2, "error branches on ReadFrame's error")
		for _, e := range bad {
			tgt := e.From.Succs[e.Succ]
			r := reachable(scan, tgt, nil)
			c.check(!r[blk], rule, fmt.Sprintf("%s: no ReadFrame after a failed ReadFrame (edge from block %d)", fnName(fn), e.From.Index), c.pos(lastInstr(e.From)),
				"ReadFrame unreachable from the error edge", "a further frame can be read after a frame failed validation")
			// and no page map update either
			for _, b := range scan.Blocks {
				for _, in := range b.Instrs {
					if isMapWrite(in) && r[b] {
						c.fail(rule, fnName(fn)+": no page-map update after a failed ReadFrame", c.pos(in), "page map updated on a path that follows a validation failure")
					}
				}
			}
		}
	}
	// (iii) the byte budget stops the scan only at commit frames: every edge that leaves the read loop
	// other than the error edges is commit-gated.  Concretely: the `limited` result is true only under the commit fact.
	limIdx := -1
	res := fn.Signature.Results()
	for i := 0; i < res.Len(); i++ {
		if res.At(i).Name() == "limited" || (res.At(i).Type().String() == "bool" && limIdx < 0) {
			limIdx = i
		}
	}
	if limIdx < 0 {
		c.fail(rule, fnName(fn)+": boolean 'limited' result present", c.P.Pos(fn.Pos()), "no boolean result found")
	} else {
		nTrue := 0
		for _, r := range returns(fn) {
			if limIdx >= len(r.Results) {
				continue
			}
			var visit func(v ssa.Value, seen map[ssa.Value]bool)
			visit = func(v ssa.Value, seen map[ssa.Value]bool) {
				if seen[v] {
					return
				}
				seen[v] = true
				switch x := v.(type) {
				case *ssa.Phi:
					for i, e := range x.Edges {
						if k, ok := e.(*ssa.Const); ok {
							if k.Value != nil && k.Value.String() == "true" {
								nTrue++
								pred := x.Block().Preds[i]
								c.requireGuard(rule, fn, Site{lastInstr(pred), "limited = true (budget stop)"}, committed)
							}
						} else {
							visit(e, seen)
						}
					}
				case *ssa.Const:
					if x.Value != nil && x.Value.String() == "true" {
						nTrue++
						c.requireGuard(rule, fn, Site{r, "return limited = true"}, committed)
					}
				case *ssa.UnOp:
					// a named result (memory cell): every assignment of `true` is a site
					if cell, ok := cellOf(x.X).(*ssa.Alloc); ok && x.Op == token.MUL {
						for _, f := range withClosures(cell.Parent()) {
							for _, b := range f.Blocks {
								for _, in := range b.Instrs {
									st, isSt := in.(*ssa.Store)
									if !isSt || cellOf(st.Addr) != ssa.Value(cell) {
										continue
									}
									if k, isK := st.Val.(*ssa.Const); isK {
										if k.Value != nil && k.Value.String() == "true" {
											nTrue++
											c.requireGuard(rule, fn, Site{st, "limited = true (budget stop)"}, committed)
										}
										continue
									}
									visit(st.Val, seen)
								}
							}
						}
						return
					}
					for _, o := range origins(x) {
						if o != v {
							visit(o, seen)
						}
					}
				case *ssa.Extract:
					// result of the phase the scan was moved into
					if call, ok := x.Tuple.(*ssa.Call); ok {
						if h := call.Call.StaticCallee(); isNewHelper(h) {
							for _, hr := range returns(h) {
								if x.Index < len(hr.Results) {
									if k, isK := hr.Results[x.Index].(*ssa.Const); isK {
										if k.Value != nil && k.Value.String() == "true" {
											nTrue++
											c.requireGuard(rule, fn, Site{hr, "return limited = true"}, committed)
										}
										continue
									}
									visit(hr.Results[x.Index], seen)
								}
							}
						}
					}
				}
			}
			visit(r.Results[limIdx], map[ssa.Value]bool{})
		}
		c.floor(rule, nTrue, 1, "assignments limited = true")
	}
	// (iv) pages above the final commit are trimmed before the map is returned
	nDel := 0
	for _, call := range callsToDeep(fn, nameIs("builtin:delete")) {
		a := call.Common().Args
		if len(a) != 2 || !isRet(a[0]) {
			continue
		}
		nDel++
		key := a[1]
		c.requireGuard(rule, fn, Site{call, "delete(m, pgno)"}, cmpFact(vIs(key), token.GTR, commitFld, "pgno > commit (last commit frame's size field)"))
		// key ranges over the map itself
		isKey := false
		for _, o := range origins(key) {
			if ex, ok := o.(*ssa.Extract); ok && ex.Index == 1 {
				if nx, ok := ex.Tuple.(*ssa.Next); ok {
					if rg, ok := nx.Iter.(*ssa.Range); ok && isRet(rg.X) {
						isKey = true
						// the range loop dominates every return of a non-nil map
						for _, r := range returns(fn) {
							if len(r.Results) > 0 && isRet(r.Results[0]) {
								c.check(dominates(rg, r), rule, fnName(fn)+": trim loop precedes every return of the page map", c.pos(r), "dominated by the trim loop", "a return of the page map bypasses the trim of pages above commit")
							}
						}
					}
				}
			}
		}
		c.check(isKey, rule, fnName(fn)+": trim iterates over the page map's own keys", c.pos(call), "range key of the returned map", "deleted key does not range over the returned map")
	}
	// the library form: maps.DeleteFunc(m, func(pgno, _) bool { return pgno > commit })
	for _, call := range callsToDeep(fn, nameIs("maps.DeleteFunc")) {
		a := call.Common().Args
		if len(a) != 2 || !isRet(a[0]) {
			continue
		}
		nDel++
		okPred := false
		if mc, isMC := a[1].(*ssa.MakeClosure); isMC {
			if g, isF := mc.Fn.(*ssa.Function); isF && len(g.Params) >= 1 {
				okPred = true
				nRet := 0
				for _, r := range returns(g) {
					if len(r.Results) != 1 {
						okPred = false
						continue
					}
					for _, o := range origins(r.Results[0]) {
						nRet++
						b, isB := o.(*ssa.BinOp)
						if !isB {
							okPred = false
							continue
						}
						gt := b.Op == token.GTR && b.X == ssa.Value(g.Params[0]) && anyOrigin(commitFld)(b.Y)
						lt := b.Op == token.LSS && b.Y == ssa.Value(g.Params[0]) && anyOrigin(commitFld)(b.X)
						if !gt && !lt {
							okPred = false
						}
					}
				}
				okPred = okPred && nRet > 0
			}
		}
		c.check(okPred, rule, fnName(fn)+": trim predicate deletes exactly the keys with pgno > commit (last commit frame's size field)", c.pos(call), "pgno > commit", "the trim predicate is not `pgno > commit`")
		for _, r := range returns(fn) {
			if len(r.Results) > 0 && isRet(r.Results[0]) {
				c.check(dominates(call, r), rule, fnName(fn)+": trim loop precedes every return of the page map", c.pos(r), "dominated by the trim loop", "a return of the page map bypasses the trim of pages above commit")
			}
		}
	}
	c.floor(rule, nDel, 1, "trim of pages above commit (delete on the returned map)")
	// (v) maxOffset = end of the last *committed* frame: max over the returned map's offsets + frame size
	nMaxOff := 0
	defer func() { c.floor(rule, nMaxOff, 1, "non-constant maxOffset results of pageMap") }()
	for _, r := range returns(fn) {
		if len(r.Results) < 2 || !isRet(r.Results[0]) {
			continue
		}
		good, n := true, 0
		for _, o := range origins(r.Results[1]) {
			if k, isC := o.(*ssa.Const); isC {
				if v, _ := constInt(k); v != 0 {
					good = false
				}
				continue
			}
			n++
			b, isB := o.(*ssa.BinOp)
			if !isB || b.Op != token.ADD {
				good = false
				continue
			}
			fromMap := func(v ssa.Value) bool {
				sawVal := false
				for _, oo := range origins(v) {
					if k, isC := oo.(*ssa.Const); isC {
						if x, _ := constInt(k); x == 0 {
							continue
						}
						return false
					}
					ex, isE := oo.(*ssa.Extract)
					if !isE || ex.Index != 2 {
						return false
					}
					nx, isN := ex.Tuple.(*ssa.Next)
					if !isN {
						return false
					}
					rg, isR := nx.Iter.(*ssa.Range)
					if !isR || !isRet(rg.X) {
						return false
					}
					sawVal = true
				}
				return sawVal
			}
			// end + frameSize, in either association: (end + 24) + pageSize or end + (24 + pageSize)
			var fromMapExpr func(v ssa.Value, d int) bool
			fromMapExpr = func(v ssa.Value, d int) bool {
				if fromMap(v) {
					return true
				}
				if d > 2 {
					return false
				}
				if bb, ok := v.(*ssa.BinOp); ok && bb.Op == token.ADD {
					return fromMapExpr(bb.X, d+1) || fromMapExpr(bb.Y, d+1)
				}
				return false
			}
			if !(fromMapExpr(b.X, 0) || fromMapExpr(b.Y, 0)) {
				good = false
			}
		}
		nMaxOff += n
		c.check(good, rule, fnName(fn)+": returned maxOffset = (max offset in the committed page map) + frame size", c.pos(r),
			"derived only from offsets stored in the returned map", "maxOffset is not derived from committed frames only (it could point past uncommitted trailing frames, moving the cursor inside an open transaction)")
	}
	// commit result = commit field of the last commit frame
	for _, r := range returns(fn) {
		if len(r.Results) >= 3 && isRet(r.Results[0]) {
			ok := true
			for _, o := range origins(r.Results[2]) {
				if k, isC := o.(*ssa.Const); isC {
					if v, _ := constInt(k); v != 0 {
						ok = false
					}
					continue
				}
				if !commitFld(o) {
					ok = false
				}
			}
			c.check(ok, rule, fnName(fn)+": returned commit = commit field of a commit frame (or 0)", c.pos(r), "provenance matches", "returned database size does not derive from a commit frame")
		}
	}
	_ = prop
}

func c09WithOffset(c *Ctx) {
	const rule = "R4-resume-from-offset"
	fn := c.fn(rule, "ls.NewWALReaderWithOffset")
	if fn == nil {
		return
	}
	succ := successReturns(fn)
	c.floor(rule, len(succ), 1, "success returns of NewWALReaderWithOffset")
	rh := callsTo(fn, nameIs("(*ls.WALReader).readHeader"))
	rf := callsTo(fn, nameIs("(*ls.WALReader).readFrame"))
	if len(rf) == 0 {
		// split form: the previous frame is read by a new function that reads the WAL itself
		for _, k := range calls(fn) {
			if h := k.Common().StaticCallee(); isNewHelper(h) && len(callsToDeep(h, isReadAt)) > 0 && errResultIndex(h.Signature) >= 0 {
				rf = append(rf, k)
			}
		}
	}
	c.floor(rule, len(rh), 1, "readHeader call")
	c.floor(rule, len(rf), 1, "readFrame call (previous frame)")
	for _, r := range succ {
		s := Site{r, "success return"}
		c.requireGuard(rule, fn, s, cmpFact(vParam("offset"), token.GTR, vConstInt(32), "offset > WALHeaderSize"))
		for _, call := range rh {
			c.requireGuard(rule, fn, s, cmpFact(vIs(resultOf(call, 0)), token.EQL, vNil(), "readHeader err == nil"))
		}
		for _, call := range rf {
			c.requireGuard(rule, fn, s, cmpFact(vIs(resultOf(call, errResultIndex(call.Common().Signature()))), token.EQL, vNil(), "previous-frame readFrame err == nil"))
		}
		c.requireGuard(rule, fn, s, cmpFact(vBinOp(token.REM, vBinOp(token.SUB, vParam("offset"), vConstInt(32), false), vAny(), false), token.EQL, vConstInt(0), "(offset-WALHeaderSize) % frameSize == 0"))
	}
	// salts come from the parameters and are installed after the header was read
	for _, f := range []string{"salt1", "salt2"} {
		sts := storesToField(fn, "WALReader."+f)
		c.floor(rule, len(sts), 1, "store to WALReader."+f)
		for _, st := range sts {
			ok := vParam(f)(st.Val)
			for _, call := range rh {
				ok = ok && dominates(call, st)
			}
			for _, call := range rf {
				ok = ok && dominates(st, call)
			}
			c.check(ok, rule, fnName(fn)+": r."+f+" = parameter "+f+" after readHeader and before the previous-frame read", c.pos(st), "ordered and from the parameter", "expected salt is not installed from the caller's value between readHeader and readFrame")
		}
	}
	// previous frame: frameN = (offset-32)/frameSize - 1 and read with verification disabled (checksum seeded from that frame)
	for _, call := range rf {
		a := namedArg(call, "verifyChecksum")
		adopts := false
		if h := call.Common().StaticCallee(); a == nil && isNewHelper(h) {
			// split form: the function called adopts the stored checksum itself
			for _, st := range storesToField(h, "WALReader.chksum1") {
				if vU32At(nil, 16)(st.Val) {
					adopts = true
				}
			}
		}
		c.check(adopts || (a != nil && vConstBool(false)(a)), rule, fnName(fn)+": previous frame read seeds the checksum (verifyChecksum=false)", c.pos(call), "constant false", "unexpected verification mode")
	}
}

func c09SyncReader(c *Ctx) {
	const rule = "R5-reader-at-verified-cursor"
	fn := c.fn(rule, "(*ls.DB).sync")
	if fn == nil {
		return
	}
	cs := callSitesV(fn, nameIs("ls.NewWALReaderWithOffset"))
	c.floor(rule, len(cs), 1, "NewWALReaderWithOffset call in (*DB).sync")
	for _, vs := range cs {
		call := vs.Call()
		ok := vFieldLoad("syncInfo.offset", nil)(namedArg(call, "offset")) &&
			vFieldLoad("syncInfo.salt1", nil)(namedArg(call, "salt1")) &&
			vFieldLoad("syncInfo.salt2", nil)(namedArg(call, "salt2"))
		c.check(ok, rule, fnName(fn)+": WAL reader resumes at info.offset with info.salt1/info.salt2", c.pos(call), "arguments are the verified cursor", "the WAL reader is not created at the verified cursor with the LTX header's salts")
		// and only when the cursor is past the header
		vs.Desc = "NewWALReaderWithOffset"
		c.requireGuardV(rule, fn, vs, cmpFact(vFieldLoad("syncInfo.offset", nil), token.NEQ, vConstInt(32), "info.offset != WALHeaderSize"))
	}
	// page map is built from that reader
	pm := callsTo(fn, nameIs("(*ls.WALReader).pageMap"))
	c.floor(rule, len(pm), 1, "pageMap call in (*DB).sync")
	for _, call := range pm {
		recv := argOf(call, 0)
		ok := vCallResult(nameIs("ls.NewWALReaderWithOffset", "ls.NewWALReader"))(recv)
		c.check(ok, rule, fnName(fn)+": page map computed by the reader created above", c.pos(call), "receiver is the validated reader", "pageMap is called on a reader of unknown provenance")
	}
}
