package main

// File-offset arithmetic is done in 64 bits: a page number times a page size
// computed in uint32 wraps at 4 GiB (and at 1 GiB the lock page makes large
// databases an explicit requirement), so every offset handed to a positional
// file operation must not contain a 32-bit multiplication or addition of
// non-constant operands underneath a widening conversion.

import (
	"go/token"
	"go/types"

	"golang.org/x/tools/go/ssa"
)

func is32bitInt(t types.Type) bool {
	b, ok := t.Underlying().(*types.Basic)
	if !ok {
		return false
	}
	switch b.Kind() {
	case types.Int32, types.Uint32, types.Int16, types.Uint16, types.Int8, types.Uint8:
		return true
	}
	return false
}

// narrowArith finds a non-constant 32-bit MUL/ADD/SHL feeding v through conversions/phis.
func narrowArith(v ssa.Value, depth int, seen map[ssa.Value]bool) *ssa.BinOp {
	if v == nil || depth > 8 || seen[v] {
		return nil
	}
	seen[v] = true
	switch x := v.(type) {
	case *ssa.Convert:
		return narrowArith(x.X, depth+1, seen)
	case *ssa.ChangeType:
		return narrowArith(x.X, depth+1, seen)
	case *ssa.Phi:
		for _, e := range x.Edges {
			if b := narrowArith(e, depth+1, seen); b != nil {
				return b
			}
		}
	case *ssa.BinOp:
		if (x.Op == token.MUL || x.Op == token.SHL) && is32bitInt(x.Type()) {
			_, cx := x.X.(*ssa.Const)
			_, cy := x.Y.(*ssa.Const)
			if !cx && !cy {
				return x
			}
		}
		if b := narrowArith(x.X, depth+1, seen); b != nil {
			return b
		}
		return narrowArith(x.Y, depth+1, seen)
	}
	return nil
}

// offsetWidthRule checks every positional file operation of the production program.
func offsetWidthRule(c *Ctx, rule string) {
	n := 0
	for _, fn := range c.P.ProdFuncs() {
		for _, call := range calls(fn) {
			idx := -1
			switch calleeName(call) {
			case "(*os.File).ReadAt", "(*os.File).WriteAt":
				idx = 2
			case "iface:io.ReaderAt.ReadAt", "iface:io.WriterAt.WriteAt":
				idx = 1
			case "(*os.File).Seek", "(*os.File).Truncate", "io.NewSectionReader":
				idx = 1
			case "ls.readWALFileAt":
				idx = 1
			}
			if idx < 0 || idx >= len(call.Common().Args) {
				continue
			}
			off := call.Common().Args[idx]
			if _, isK := off.(*ssa.Const); isK {
				continue
			}
			n++
			b := narrowArith(off, 0, map[ssa.Value]bool{})
			// look one step through locals: the offset may be a variable computed earlier
			if b == nil {
				for _, o := range origins(off) {
					if bb := narrowArith(o, 0, map[ssa.Value]bool{}); bb != nil {
						b = bb
					}
				}
			}
			at := c.pos(call)
			detail := "no 32-bit product underneath the offset"
			if b != nil {
				at = c.pos(b)
			}
			c.check(b == nil, rule, fnName(fn)+": file offset passed to "+calleeName(call)+" is computed in 64 bits", at, detail,
				"the offset contains a 32-bit multiplication of non-constant operands (page number x page size): it wraps for files beyond 4 GiB and the page is read/written at the wrong place")
		}
	}
	c.floor(rule, n, 10, "positional file operations with a computed offset")
}
