package main

import (
	"flag"
	"fmt"
	"os"
)

func init() {
	extraCmds["dump"] = func(args []string) int {
		fs := flag.NewFlagSet("dump", flag.ExitOnError)
		repo := fs.String("repo", "/repo", "")
		tags := fs.String("tags", "vfs", "")
		fs.Parse(args)
		p, err := Load(LoadConfig{Dir: *repo, Tags: *tags})
		if err != nil {
			fmt.Fprintln(os.Stderr, err)
			return 2
		}
		for _, name := range fs.Args() {
			f := p.Func(name)
			if f == nil {
				fmt.Println("not found:", name)
				continue
			}
			for _, g := range withClosures(f) {
				g.WriteTo(os.Stdout)
			}
		}
		return 0
	}
}

func init() {
	// warm: load the quick configuration once so the Go build cache holds the
	// export data of every dependency (used by MANIFEST.setup_cmd).
	extraCmds["warm"] = func(args []string) int {
		fs := flag.NewFlagSet("warm", flag.ExitOnError)
		repo := fs.String("repo", "/repo", "")
		fs.Parse(args)
		p, err := Load(LoadConfig{Dir: *repo, Tags: "vfs"})
		if err != nil {
			fmt.Fprintln(os.Stderr, "warm:", err)
			return 1
		}
		fmt.Printf("warm: %d packages, %d production functions, ltx %s\n", p.AllPkgs, len(p.ProdFuncs()), p.LtxVer)
		return 0
	}
}

func init() {
	extraCmds["locks"] = func(args []string) int {
		p, err := Load(LoadConfig{Dir: "/repo", Tags: "vfs"})
		if err != nil {
			fmt.Fprintln(os.Stderr, err)
			return 2
		}
		la := newLockAnalysis(p)
		la.interproc()
		for _, name := range args {
			f := p.Func(name)
			if f == nil {
				fmt.Println("not found", name)
				continue
			}
			for _, g := range withClosures(f) {
				fmt.Printf("%s entry=%s deferred=%s summary: succ=%s fail=%s rel=%s\n", fnName(g), la.entry[g], la.deferred[g], la.summary(g).onSuccess, la.summary(g).onFailure, la.summary(g).releases)
			}
		}
		return 0
	}
}
